#!/bin/sh
# usage: tools/selftest.sh
# Must-fail corpus for the verifier itself (run after every engine change).
# Works on a scratch worktree of /repo under ${TMPDIR:-/tmp} which is removed at
# the end; nothing is written to /repo. Each case edits a CONTRACT (not the code)
# so that it claims something false; the verifier must reject it with the named
# obligation. A case that verifies means the engine has a soundness hole.
cd "$(dirname "$0")/.." || exit 2
export GOFLAGS=-mod=mod GOPROXY=off GOSUMDB=off GOTOOLCHAIN=local
[ -x bin/tsvc ] || ./setup.sh >/dev/null 2>&1 || { echo "setup failed"; exit 2; }
W="${TMPDIR:-/tmp}/tsvc-selftest-$$"
git -C /repo worktree add -q --detach "$W" HEAD || exit 2
trap 'git -C /repo worktree remove --force "$W" >/dev/null 2>&1; rm -rf "$W"' EXIT
rc=0
expect_fail() { # name, key, obligation-substring
  out=$(bin/tsvc func -repo "$W" -nocache -timeout 60 -key "$2" 2>&1)
  if echo "$out" | grep -q "FAIL.*$3"; then echo "ok    $1 (rejected: $3)"; else echo "HOLE  $1: expected a failing obligation matching '$3'"; echo "$out" | grep -v '^   ok' | head -5; rc=1; fi
  git -C "$W" checkout -q -- .
}
# 1. a loop invariant about state the loop does not write, false on entry: it is
#    assumed at the loop head under the same path condition, so a generator that
#    lets later assumptions reach earlier checks "proves" it from itself
sed -i 's|^//@   loop 0 invariant bytes(Nb) == be(val(N))$|&\n//@   loop 0 invariant val(N) == 5|' "$W/crypto/paillier/zz_contracts_verif.go"
expect_fail "false invariant over unmodified state" 'paillier.GenerateXs' 'inv-init/loop0'
# 2. a false postcondition
sed -i 's|^//@ func getSafePrime$|&\n//@   ensures val(result) == 2 * val(p)|' "$W/common/zz_contracts_verif.go"
expect_fail "false postcondition" 'common.getSafePrime' 'post/'
# 3. a call-site clause that the callee's postcondition would imply if it leaked backwards
sed -i 's|^//@ func probablyPrime$|&\n//@   site (*big.Int).ProbablyPrime#0 : val(prime) >= 2|' "$W/common/zz_contracts_verif.go"
expect_fail "call-site clause implied only by what follows" 'common.probablyPrime' 'site/'
# 4. a contradictory precondition must be reported as vacuous, not as success
sed -i 's|^//@ func getSafePrime$|&\n//@   requires val(p) > 0 \&\& val(p) < 0|' "$W/common/zz_contracts_verif.go"
out=$(bin/tsvc func -repo "$W" -nocache -timeout 60 -key 'common.getSafePrime' 2>&1)
if echo "$out" | grep -q "VACUOUS"; then echo "ok    contradictory requires (reported vacuous)"; else echo "HOLE  contradictory requires accepted"; rc=1; fi
git -C "$W" checkout -q -- .
# 5. replay canary: a seeded code change whose failing obligation has a concrete input
#    (a 33-byte slice); the model must be rebuilt and must panic on the real code
git -C "$W" apply seeded/C06-m4/patch.diff 2>/dev/null || git -C "$W" apply "$PWD/seeded/C06-m4/patch.diff"
out=$(bin/tsvc func -repo "$W" -nocache -timeout 60 -dump -key 'eddsa/signing.copyBytes' 2>&1)
if echo "$out" | grep -q "replay .*copyBytes/slice.* -> replayed-on-real-code"; then echo "ok    replay canary (slice bounds panic reproduced on the real code)"; else echo "HOLE  replay canary: the counterexample did not replay"; echo "$out" | tail -4; rc=1; fi
git -C "$W" checkout -q -- .
exit $rc
