#!/usr/bin/env python3
"""Splices DESIGN_asbuilt.md (section 0, with the seeded-change table generated
from seeded/*/result.txt and meta.json) into DESIGN.md in front of section 1."""
import json, os, re

root = os.path.dirname(os.path.dirname(os.path.abspath(__file__)))
rows = []
for d in sorted(os.listdir(os.path.join(root, 'seeded'))):
    p = os.path.join(root, 'seeded', d)
    if not os.path.isfile(os.path.join(p, 'meta.json')):
        continue
    m = json.load(open(os.path.join(p, 'meta.json')))
    res, obl = 'not run', ''
    rp = os.path.join(p, 'result.txt')
    if os.path.isfile(rp):
        lines = open(rp).read().splitlines()
        res = lines[0].split('\t')[-1] if lines else 'not run'
        for l in lines:
            mm = re.search(r'obligation=(\S+)', l)
            if l.startswith('VIOLATION') and mm:
                obl = mm.group(1)
                break
    fn = m.get('function', '')
    if isinstance(fn, list):
        fn = ', '.join(fn)
    files = m.get('files', []) or ([m['file']] if m.get('file') else [])
    what = ((m.get('description') or m.get('what') or '').split('. ')[0])[:150].replace('|', '/').replace('\n', ' ')
    rows.append('| %s | %s | %s | %s | %s | %s |' % (d, m.get('property', ''), (files[0] if files else '') + ' ' + fn.replace('|', '/'), what, res, ('`' + obl + '`') if obl else (m.get('why_missed', '') or '')))
table = '| change | property | where | what | quick check | first failed obligation / why missed |\n|---|---|---|---|---|---|\n' + '\n'.join(rows)
caught = sum(1 for r in rows if '| CAUGHT |' in r)
table += '\n\n%d of %d seeded changes are caught by the quick check of the property they were written against.\n' % (caught, len(rows))

asb = open(os.path.join(root, 'DESIGN_asbuilt.md')).read().replace('SEEDED_TABLE_PLACEHOLDER', table)
dp = os.path.join(root, 'DESIGN.md')
s = open(dp).read()
# drop a previously spliced section 0
s = re.sub(r'\n## 0\. As built.*?(?=\n## 1\. Summary)', '\n', s, flags=re.S)
s = s.replace("Status: design only (no framework code yet). Everything below is a plan; the\nnumbers marked *measured* were obtained with throw-away probes during the\ndesign read (since deleted), everything else is an estimate.",
              "Status: built. Section 0 describes what exists and what it found; sections 1-8\nare the plan as written before any code (kept as the record of intent; where\nthey disagree with section 0, section 0 is right).")
s = s.replace('\n## 1. Summary', '\n' + asb.rstrip('\n') + '\n\n---\n\n## 1. Summary', 1)
if '0. As built' not in s.split('Contents')[1].split('---')[0]:
    s = s.replace('Contents\n\n1. What this family', 'Contents\n\n0. As built: machinery, claims, assumptions, findings, false alarms, seeded changes\n1. What this family', 1)
open(dp, 'w').write(s)
print('DESIGN.md updated: %d seeded rows, %d caught' % (len(rows), caught))
