#!/bin/sh
# usage: tools/run_seeded.sh [seeded-id ...]
# Applies each seeded property-breaking change (seeded/<id>/patch.diff) to /repo's
# working tree, runs the property's quick check, restores the tree, and records
# the outcome in seeded/<id>/result.txt and seeded/RESULTS.tsv.
# Never commits anything in /repo.
cd "$(dirname "$0")/.." || exit 2
# SEED_REPO: where the change is applied (default /repo itself; a scratch worktree of
# /repo's HEAD may be given so that contract editing in /repo can go on meanwhile)
R="${SEED_REPO:-/repo}"
[ "$R" != /repo ] && export VERIF_REPO="$R"
[ -n "$(git -C "$R" status --porcelain)" ] && { echo "$R working tree not clean"; exit 2; }
ids="$*"; [ -z "$ids" ] && ids=$(ls seeded | grep -v RESULTS | sort)
for id in $ids; do
  d=seeded/$id
  [ -f "$d/patch.diff" ] || continue
  prop=$(python3 -c "import json,sys;print(json.load(open('$d/meta.json'))['property'])")
  extra=$(python3 -c "import json,sys;print(' '.join(json.load(open('$d/meta.json')).get('also_check',[])))")
  if ! git -C "$R" apply --check "$PWD/$d/patch.diff" 2>/dev/null; then
    echo "$id	$prop	PATCH-DOES-NOT-APPLY" | tee "$d/result.txt"; continue
  fi
  git -C "$R" apply "$PWD/$d/patch.diff"
  out=""; caught=MISSED
  for p in $prop $extra; do
    o=$(VERIF_NO_EVIDENCE=1 ./check "$p" quick 2>&1); rc=$?
    v=$(echo "$o" | grep '^VIOLATION' | head -3)
    [ $rc -ne 0 ] && [ -n "$v" ] && caught=CAUGHT
    out="$out
[$p rc=$rc]
$(echo "$o" | grep -E '^VIOLATION|^KNOWN|FAIL|STALE|error' | cut -c1-400 | head -12)"
  done
  git -C "$R" checkout -- .
  echo "$id	$prop	$caught" | tee "$d/result.txt"
  echo "$out" >> "$d/result.txt"
done
for id in $(ls seeded | grep -v RESULTS | sort); do [ -f seeded/$id/result.txt ] && head -1 seeded/$id/result.txt; done > seeded/RESULTS.tsv
