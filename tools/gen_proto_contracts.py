#!/usr/bin/env python3
"""Generates the routing / acceptance / update-exactness contracts of the six
protocol packages (C08). The routing table comes from the PROPERTY STATEMENT
(secret-bearing message types are point-to-point with exactly one recipient,
every other type is broadcast), not from the code; the code is only parsed for
the list of constructors, rounds and the message arrays each round scans.
Output: <pkg>/zz_contracts_proto_verif.go (comment-only, tag verif)."""
import re, os, sys

repo = sys.argv[1] if len(sys.argv) > 1 else '/repo'
PKGS = ['ecdsa/keygen', 'ecdsa/signing', 'ecdsa/resharing', 'eddsa/keygen', 'eddsa/signing', 'eddsa/resharing']
# from the statement of C08: key shares, MtA ciphertexts and responses, factorisation proofs
P2P = {
    'ecdsa/keygen': {'KGRound2Message1'},
    'ecdsa/signing': {'SignRound1Message1', 'SignRound2Message'},
    'ecdsa/resharing': {'DGRound3Message1', 'DGRound4Message1'},
    'eddsa/keygen': {'KGRound2Message1'},
    'eddsa/signing': set(),
    'eddsa/resharing': {'DGRound3Message1'},
}

def chain_req(d, rnd):
    src = strip_comments(open(os.path.join(d, 'rounds.go')).read())
    emb = dict(re.findall(r'\n\s*(\w+) struct \{\s*\*(\w+)\s*\n?\s*\}', src))
    parts, path, t = ['round != nil'], 'round', rnd
    while t in emb:
        path += '.' + emb[t]
        parts.append(path + ' != nil')
        t = emb[t]
    return ' && '.join(parts)

def strip_comments(s):
    return re.sub(r'//[^\n]*', '', s)

for pkg in PKGS:
    d = os.path.join(repo, pkg)
    pname = pkg.split('/')[-1]
    out = []
    msgs = strip_comments(open(os.path.join(d, 'messages.go')).read())
    # ---- constructors ----
    for m in re.finditer(r'func (New(\w+))\(([^)]*)\)\s*(tss\.ParsedMessage|\(tss\.ParsedMessage, error\))\s*\{(.*?)\n\}', msgs, re.S):
        fn, typ, params, rtyp, body = m.groups()
        two = 'error' in rtyp
        p2p = typ in P2P[pkg]
        names = [p.strip().split()[0] for p in re.split(r',', params) if p.strip()]
        out.append('//@ func %s' % fn)
        out.append('//@   props C08 C06')
        req = ['from != nil']
        if re.search(r'\bto\b', params) and 'to' in names:
            tm = re.search(r'\bto\b[^,]*\[\]\*tss\.PartyID', params)
            if tm:
                req.append('(forall k in 0..len(to) :: to[k] != nil)')
            else:
                req.append('to != nil')
        # every pointer argument is dereferenced for serialisation
        typ_of, last = {}, None
        for prm in reversed([q.strip() for q in params.split(',') if q.strip()]):
            f = prm.split(None, 1)
            if len(f) == 2:
                last = f[1]
            typ_of[f[0]] = last
        for nme in names:
            t = typ_of.get(nme, '')
            if nme in ('from', 'to'):
                continue
            if t.startswith('*'):
                req.append(nme + ' != nil')
        out.append('//@   requires ' + ' && '.join(req))
        out.append('//@   skip pre nil')
        out.append('//@   note assumed, not checked: the payload arguments satisfy the preconditions of their serialisers (non-nil numbers, well-formed points and proofs); only the routing is claimed')
        if p2p:
            out.append('//@   ensures [C08.secret-bearing-message-is-p2p-to-one-recipient] isMsg(result) && !mi(result).MessageRouting.IsBroadcast && len(mi(result).MessageRouting.To) == 1 && mi(result).MessageRouting.To[0] == to && mi(result).wire != nil && !mi(result).wire.IsBroadcast')
        else:
            out.append('//@   ensures [C08.public-message-is-broadcast] isMsg(result) && mi(result).MessageRouting.IsBroadcast && mi(result).wire != nil && mi(result).wire.IsBroadcast')
        out.append('//@   ensures [C08.sender-recorded] mi(result).MessageRouting.From == from && istype(mi(result).content, "*%s.%s")' % (pkg, typ))
        if two:
            for q in (-1, -2):
                c = out[q]
                k = c.index('] ') + 2
                out[q] = c[:k] + 'result1 == nil ==> (' + c[k:].replace('(result)', '(result0)') + ')'
        out.append('')
    # ---- rounds ----
    for f in sorted(os.listdir(d)):
        if not f.endswith('.go') or f.endswith('_test.go') or f.startswith('zz_'):
            continue
        src = strip_comments(open(os.path.join(d, f)).read())
        for m in re.finditer(r'func \(round \*(\w+)\) CanAccept\(msg tss\.ParsedMessage\) bool \{(.*?)\n\}', src, re.S):
            rnd, body = m.groups()
            types = re.findall(r'msg\.Content\(\)\.\(\*(\w+)\)', body)
            if 'Committee()' in body:
                continue  # acceptance depends on committee membership: hand-written
            out.append('//@ func (*%s).CanAccept' % rnd)
            out.append('//@   props C08 C06')
            out.append('//@   requires !isnil(msg)')
            if not types:
                out.append('//@   ensures [C08.accepts-nothing] !result')
            else:
                alts = []
                for t in types:
                    b = 'false' if t in P2P[pkg] else 'true'
                    alts.append('(istype(msgcontent(msg), "*%s.%s") && msgbcast(msg) == %s)' % (pkg, t, b))
                acc = 'acc_%s_%s' % (pkg.replace('/', '_'), rnd)
                out.insert(len(out) - 3, '//@ define %s(msg) = (%s)' % (acc, ' || '.join(alts)))
                out.append('//@   ensures [C08.accepts-only-on-the-right-channel] result <==> %s(msg)' % acc)
            out.append('')
        for m in re.finditer(r'func \(round \*(\w+)\) NextRound\(\) tss\.Round \{(.*?)\n\}', src, re.S):
            rnd, body = m.groups()
            out.append('//@ func (*%s).NextRound' % rnd)
            out.append('//@   props C08 C06')
            nm = re.search(r'return &(\w+)\{round\}', body)
            if nm:
                out.append('//@   requires ' + chain_req(d, rnd))
                out.append('//@   modifies round.started')
                out.append('//@   ensures istype(result, "*%s.%s") && fresh(cast(result, "*%s.%s")) && !round.started' % (pkg, nm.group(1), pkg, nm.group(1)))
            else:
                out.append('//@   ensures isnil(result)')
            out.append('')
    # ---- base methods (single ok[] array; resharing's old/new trackers are written by hand) ----
    if 'resharing' not in pkg:
        out += [
            '//@ func (*base).Params',
            '//@   props C06',
            '//@   requires round != nil',
            '//@   ensures result == round.Parameters',
            '//@ func (*base).RoundNumber',
            '//@   props C06 C08',
            '//@   requires round != nil',
            '//@   ensures result == round.number',
            '',
            '//@ func (*base).CanProceed',
            '//@   props C08 C06',
            '//@   requires round != nil',
            '//@   ensures [C08.proceeds-iff-started-and-nobody-awaited] result <==> (round.started && (forall j in 0..len(round.ok) :: round.ok[j]))',
            '//@   loop 0 invariant round.started && (forall k in 0..$iter :: round.ok[k])',
            '',
            '//@ func (*base).WaitingFor',
            '//@   props C08 C06',
            '//@   requires round != nil && round.Parameters != nil && round.Parameters.parties != nil',
            '//@   requires [committee-sized-tracker] len(round.Parameters.parties.partyIDs) == len(round.ok)',
            '//@   ensures [C08.waiting-for-lists-only-awaited-peers] forall m in 0..len(result) :: (exists j in 0..len(round.ok) :: (!round.ok[j] && result[m] == round.Parameters.parties.partyIDs[j]))',
            '//@   ensures [C08.waiting-for-lists-every-awaited-peer] forall j in 0..len(round.ok) :: (!round.ok[j] ==> (exists m in 0..len(result) :: result[m] == round.Parameters.parties.partyIDs[j]))',
            '//@   loop 0 invariant len(ids) <= $iter && cap(ids) == len(round.ok) && fresh(ids) && Ps == round.Parameters.parties.partyIDs',
            '//@   loop 0 invariant forall m in 0..len(ids) :: (exists j in 0..$iter :: (!round.ok[j] && ids[m] == Ps[j]))',
            '//@   loop 0 invariant forall j in 0..$iter :: (!round.ok[j] ==> (exists m in 0..len(ids) :: ids[m] == Ps[j]))',
            '',
            '//@ func (*base).resetOK',
            '//@   props C08 C06',
            '//@   requires round != nil',
            '//@   modifies round.ok[*]',
            '//@   ensures [C08.reset-clears-every-flag] forall j in 0..len(round.ok) :: !round.ok[j]',
            '//@   loop 0 invariant forall k in 0..$iter :: !round.ok[k]',
            '',
            '//@ func (*base).WrapError',
            '//@   props C05 C06',
            '//@   requires round != nil && round.Parameters != nil',
            '//@   ensures [C05.error-names-the-given-culprits] result != nil && fresh(result) && result.culprits == culprits && result.victim == round.Parameters.partyID && result.round == round.number && result.cause == err',
            '',
        ]
    else:
        out += [
            '//@ func (*base).Params',
            '//@   props C06',
            '//@   requires round != nil && round.ReSharingParameters != nil',
            '//@   ensures result == round.ReSharingParameters.Parameters',
            '//@ func (*base).ReSharingParams',
            '//@   props C06',
            '//@   requires round != nil',
            '//@   ensures result == round.ReSharingParameters',
            '//@ func (*base).RoundNumber',
            '//@   props C06 C08',
            '//@   requires round != nil',
            '//@   ensures result == round.number',
            '',
            '//@ func (*base).resetOK',
            '//@   props C08 C06',
            '//@   requires round != nil',
            '//@   modifies round.oldOK[*], round.newOK[*]',
            '//@   ensures [C08.reset-clears-every-flag] (forall j in 0..len(round.oldOK) :: !round.oldOK[j]) && (forall j in 0..len(round.newOK) :: !round.newOK[j])',
            '//@   loop 0 invariant forall k in 0..$iter :: !round.oldOK[k]',
            '//@   loop 1 invariant (forall k in 0..len(round.oldOK) :: !round.oldOK[k]) && (forall k in 0..$iter :: !round.newOK[k])',
            '//@ func (*base).allOldOK',
            '//@   props C08 C06',
            '//@   requires round != nil',
            '//@   modifies round.oldOK[*]',
            '//@   ensures forall j in 0..len(round.oldOK) :: round.oldOK[j]',
            '//@   loop 0 invariant forall k in 0..$iter :: round.oldOK[k]',
            '//@ func (*base).allNewOK',
            '//@   props C08 C06',
            '//@   requires round != nil',
            '//@   modifies round.newOK[*]',
            '//@   ensures forall j in 0..len(round.newOK) :: round.newOK[j]',
            '//@   loop 0 invariant forall k in 0..$iter :: round.newOK[k]',
            '',
            '//@ func (*base).WrapError',
            '//@   props C05 C06',
            '//@   requires round != nil && round.ReSharingParameters != nil && round.ReSharingParameters.Parameters != nil',
            '//@   ensures [C05.error-names-the-given-culprits] result != nil && fresh(result) && result.culprits == culprits && result.victim == round.ReSharingParameters.Parameters.partyID && result.round == round.number && result.cause == err',
            '',
        ]
        # resharing Update: optional committee guard, one scan, optional slot that only new members need
        for f in sorted(os.listdir(d)):
            if not f.endswith('.go') or f.endswith('_test.go') or f.startswith('zz_'):
                continue
            src = strip_comments(open(os.path.join(d, f)).read())
            for m in re.finditer(r'func \(round \*(\w+)\) Update\(\) \(bool, \*tss\.Error\) \{(.*?)\n\}', src, re.S):
                rnd, body = m.groups()
                loops = re.findall(r'for j, \w+ := range round\.temp\.(\w+) \{', body)
                if not loops:
                    out.append('//@ func (*%s).Update' % rnd)
                    out.append('//@   props C08 C06')
                    out.append('//@   ensures [C08.final-round-waits-for-nobody] !result0 && result1 == nil')
                    out.append('')
                    continue
                if len(loops) != 1 or 'UnmarshalE' in body:
                    continue  # hand-written (several committee cases / public-key bookkeeping)
                A = loops[0]
                okarr = re.search(r'if round\.(oldOK|newOK)\[j\]', body).group(1)
                gm = re.search(r'^\s*if !round\.ReSharingParam\w*(?:\(\))?\.Is(Old|New)Committee\(\) \{\s*return true, nil', body)
                guard = None if not gm else ('rsOld' if gm.group(1) == 'Old' else 'rsNew') + '(round.ReSharingParameters)'
                cm = re.search(r'if round\.ReSharingParams\(\)\.IsNewCommittee\(\) \{\s*\w+ := round\.temp\.(\w+)\[j\]', body)
                cond_slot = cm.group(1) if cm else None
                others = [a for a in re.findall(r'round\.temp\.(\w+)\[j\]', body) if a != A and a != cond_slot]
                acc = 'acc_%s_%s' % (pkg.replace('/', '_'), rnd)
                slot = lambda a: '(!isnil(round.temp.%s[K]) && %s(round.temp.%s[K]))' % (a, acc, a)
                deliv = ' && '.join(slot(a) for a in [A] + others)
                if cond_slot:
                    deliv += ' && (rsNew(round.ReSharingParameters) ==> %s)' % slot(cond_slot)
                D = lambda k: deliv.replace('K', k)
                arrays = [A] + others + ([cond_slot] if cond_slot else [])
                out.append('//@ func (*%s).Update' % rnd)
                out.append('//@   props C08 C06')
                out.append('//@   requires ' + chain_req(d, rnd) + ' && round.temp != nil && rsWF(round.ReSharingParameters)')
                out.append('//@   requires [one-slot-per-committee-member] ' + ' && '.join('len(round.temp.%s) == len(round.%s)' % (a, okarr) for a in arrays))
                out.append('//@   modifies round.%s[*]' % okarr)
                exact = '(forall j in 0..len(round.%s) :: (round.%s[j] <==> (old(round.%s[j]) || (%s))))' % (okarr, okarr, okarr, D('j'))
                allok = '(forall j in 0..len(round.%s) :: round.%s[j])' % (okarr, okarr)
                if guard:
                    out.append('//@   ensures [C08.not-a-receiver-in-this-round] !%s ==> (result0 && result1 == nil && (forall j in 0..len(round.%s) :: round.%s[j] == old(round.%s[j])))' % (guard, okarr, okarr, okarr))
                    out.append('//@   ensures [C08.ok-marks-exactly-the-peers-whose-messages-are-delivered] %s ==> (result1 == nil && %s)' % (guard, exact))
                    out.append('//@   ensures [C08.update-true-iff-nobody-awaited] %s ==> (result0 <==> %s)' % (guard, allok))
                else:
                    out.append('//@   ensures [C08.ok-marks-exactly-the-peers-whose-messages-are-delivered] result1 == nil && %s' % exact)
                    out.append('//@   ensures [C08.update-true-iff-nobody-awaited] result0 <==> %s' % allok)
                inv0 = (guard + ' && ') if guard else ''
                out.append('//@   loop 0 invariant %sforall k in 0..$iter :: (round.%s[k] <==> (old(round.%s[k]) || (%s)))' % (inv0, okarr, okarr, D('k')))
                out.append('//@   loop 0 invariant forall k in $iter..len(round.%s) :: (round.%s[k] == old(round.%s[k]))' % (okarr, okarr, okarr))
                if re.search(r'\bret := true', body):
                    out.append('//@   loop 0 invariant ret <==> (forall k in 0..$iter :: round.%s[k])' % okarr)
                else:
                    out.append('//@   loop 0 invariant forall k in 0..$iter :: round.%s[k]' % okarr)
                out.append('')
    # ---- Update: one scan over the per-sender slots; ok[j] is set exactly when all of j's slots are filled ----
    for f in sorted(os.listdir(d)):
        if not f.endswith('.go') or f.endswith('_test.go') or f.startswith('zz_') or 'resharing' in pkg:
            continue
        src = strip_comments(open(os.path.join(d, f)).read())
        for m in re.finditer(r'func \(round \*(\w+)\) Update\(\) \(bool, \*tss\.Error\) \{(.*?)\n\}', src, re.S):
            rnd, body = m.groups()
            rm = re.search(r'for j, \w+ := range round\.temp\.(\w+) \{', body)
            out.append('//@ func (*%s).Update' % rnd)
            out.append('//@   props C08 C06')
            if not rm:
                out.append('//@   ensures [C08.final-round-waits-for-nobody] !result0 && result1 == nil')
                out.append('')
                continue
            arrays = [rm.group(1)] + [a for a in re.findall(r'round\.temp\.(\w+)\[j\]', body) if a != rm.group(1)]
            acc = 'acc_%s_%s' % (pkg.replace('/', '_'), rnd)
            deliv = ' && '.join('(!isnil(round.temp.%s[K]) && %s(round.temp.%s[K]))' % (a, acc, a) for a in arrays)
            D = lambda k: deliv.replace('K', k)
            out.append('//@   requires ' + chain_req(d, rnd) + ' && round.temp != nil')
            out.append('//@   requires [one-slot-per-committee-member] ' + ' && '.join('len(round.temp.%s) == len(round.ok)' % a for a in arrays))
            out.append('//@   modifies round.ok[*]')
            out.append('//@   ensures [C08.ok-marks-exactly-the-peers-whose-messages-are-delivered] result1 == nil && (forall j in 0..len(round.ok) :: (round.ok[j] <==> (old(round.ok[j]) || (%s))))' % D('j'))
            out.append('//@   ensures [C08.update-true-iff-nobody-awaited] result0 <==> (forall j in 0..len(round.ok) :: round.ok[j])')
            out.append('//@   loop 0 invariant forall k in 0..$iter :: (round.ok[k] <==> (old(round.ok[k]) || (%s)))' % D('k'))
            out.append('//@   loop 0 invariant forall k in $iter..len(round.ok) :: (round.ok[k] == old(round.ok[k]))')
            if re.search(r'\bret := true', body):
                out.append('//@   loop 0 invariant ret <==> (forall k in 0..$iter :: round.ok[k])')
            else:
                out.append('//@   loop 0 invariant forall k in 0..$iter :: round.ok[k]')
            out.append('')
    # ---- LocalParty.ValidateMessage / StoreMessage: one slot per (content type, sender index) ----
    lp = strip_comments(open(os.path.join(d, 'local_party.go')).read())
    sm = re.search(r'func \(p \*LocalParty\) StoreMessage\(.*?\n\}', lp, re.S).group(0)
    cases = re.findall(r'case \*(\w+):\s*p\.temp\.(\w+)\[fromPIdx\] = msg', sm)
    vm = re.search(r'func \(p \*LocalParty\) ValidateMessage\(.*?\n\}', lp, re.S).group(0)
    newtypes = set()
    nm = re.search(r'case ([^:]*):\s*maxFromIdx = len\(p\.params\.NewParties', vm)
    if nm:
        newtypes = set(re.findall(r'\*(\w+)', nm.group(1)))
    resh = 'resharing' in pkg
    ids_old = 'p.params.Parameters.parties.partyIDs' if resh else 'p.params.parties.partyIDs'
    ids_new = 'p.params.newParties.partyIDs'
    wf = ('p != nil && p.BaseParty != nil && p.params != nil && wfParams(p.params.Parameters) && p.params.newParties != nil' if resh
          else 'p != nil && p.BaseParty != nil && wfParams(p.params)')
    T = lambda t: 'istype(msgcontent(msg), "*%s.%s")' % (pkg, t)
    isnewtype = '(' + ' || '.join(T(t) for t in sorted(newtypes)) + ')' if newtypes else 'false'
    if 'PartyCount()' in vm:
        ids_old = None
    bound0 = 'len(%s)' % ids_old if ids_old else 'p.params.partyCount'
    bound = ('ite(%s, len(%s), len(%s))' % (isnewtype, ids_new, ids_old)) if resh else bound0
    idx = 'msgfrom(msg).Index'
    out += [
        '//@ func (*LocalParty).ValidateMessage',
        '//@   props C06 C08 C09',
        '//@   requires ' + wf + ('' if ids_old else ' && 0 <= p.params.partyCount'),
        '//@   requires [sender-id-wellformed] !isnil(msg) ==> (msgfrom(msg) != nil ==> msgfrom(msg).MessageWrapper_PartyID != nil)',
        '//@   ensures result1 != nil ==> !result0',
        '//@   ensures [C06.sender-index-fits-the-slot-arrays] result1 == nil ==> (result0 && !isnil(msg) && !isnil(msgcontent(msg)) && msgfrom(msg) != nil && msgvalid(msg) && 0 <= %s && %s < %s)' % (idx, idx, bound),
        '',
        '//@ func (*LocalParty).StoreMessage',
        '//@   props C08 C06',
        '//@   requires ' + wf + ('' if ids_old else ' && 0 <= p.params.partyCount'),
        '//@   requires [sender-id-wellformed] !isnil(msg) ==> (msgfrom(msg) != nil ==> msgfrom(msg).MessageWrapper_PartyID != nil)',
        '//@   requires [one-slot-per-committee-member] ' + ' && '.join('len(p.temp.%s) == %s' % (a, ('len(%s)' % ids_new) if t in newtypes else bound0) for t, a in cases),
        '//@   requires [slot-arrays-are-separate] ' + ' && '.join('arr(p.temp.%s) != arr(p.temp.%s)' % (cases[i][1], cases[j][1]) for i in range(len(cases)) for j in range(i + 1, len(cases))),
        '//@   modifies ' + ', '.join('p.temp.%s[*]' % a for t, a in cases),
        '//@   ensures result1 != nil ==> !result0',
        '//@   ensures [C08.stored-under-its-type-and-sender-index] (result1 == nil && result0) ==> (' + ' || '.join('(%s && p.temp.%s[%s] == msg)' % (T(t), a, idx) for t, a in cases) + ')',
    ]
    for t, a in cases:
        out.append('//@   ensures [C08.only-the-senders-slot-of-that-type-changes] forall k in 0..len(p.temp.%s) :: (p.temp.%s[k] != old(p.temp.%s[k]) ==> (k == %s && %s && p.temp.%s[k] == msg))' % (a, a, a, idx, T(t), a))
    out.append('')
    # ---- the update entry points: the engine's lock discipline seen from the API (C09) ----
    mods = 'plocked(p), curround(p), allghost("proceedok"), allghost("rstarted")'
    out += [
        '//@ func (*LocalParty).Update',
        '//@   props C09 C06',
        '//@   requires p != nil',
        '//@   requires [sender-id-wellformed] !isnil(msg) ==> (msgfrom(msg) != nil ==> msgfrom(msg).MessageWrapper_PartyID != nil)',
        '//@   requires [C09.not-reentrant] !plocked(p)',
        '//@   modifies ' + mods,
        '//@   ensures [C09.unlocked-on-every-return] !plocked(p)',
        '',
        '//@ func (*LocalParty).UpdateFromBytes',
        '//@   props C09 C06',
        '//@   requires p != nil && p.BaseParty != nil',
        '//@   requires [sender-known] from != nil && from.MessageWrapper_PartyID != nil',
        '//@   requires [C09.not-reentrant] !plocked(p)',
        '//@   modifies ' + mods,
        '//@   ensures [C09.unlocked-on-every-return] !plocked(p)',
        '',
    ]
    if out:
        path = os.path.join(d, 'zz_contracts_proto_verif.go')
        with open(path, 'w') as fh:
            fh.write('//go:build verif\n\n// Generated by /verif/tools/gen_proto_contracts.py (routing table taken from the statement of C08).\n\npackage %s\n\n' % pname)
            fh.write('\n'.join(out))
        print(path, len(out))
