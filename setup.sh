#!/bin/sh
# Builds the verifier offline from files on disk only.
cd "$(dirname "$0")/engine" || exit 2
export GOFLAGS=-mod=mod GOPROXY=off GOSUMDB=off GOTOOLCHAIN=local
mkdir -p ../bin
go build -o ../bin/tsvc ./cmd/tsvc
