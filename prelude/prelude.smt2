; ---------------------------------------------------------------------------
; Spec functions shared by all contracts. Everything here is either a
; definition or an axiom that is true of the intended mathematical object;
; the axioms are listed in every evidence file as part of the trusted base.
; `tsvc selftest` checks that this file alone is satisfiable.
; ---------------------------------------------------------------------------

; ----- byte strings (abstract sequences of bytes) -----
(declare-sort BStr 0)
(declare-const bempty BStr)
(declare-fun chancap (Int) Int)        ; buffer size of a channel (fixed at make)
(declare-fun cat (BStr BStr) BStr)
(declare-fun single (Int) BStr)          ; one byte
(declare-fun blen (BStr) Int)
(declare-fun be (Int) BStr)              ; minimal big-endian encoding of |x| (big.Int.Bytes)
(declare-fun beint (BStr) Int)           ; big-endian decoding (big.Int.SetBytes)
(declare-fun le64 (Int) BStr)            ; 8-byte little-endian encoding (binary.LittleEndian.PutUint64)
(declare-fun be32 (Int) BStr)            ; 4-byte big-endian encoding (binary.BigEndian.PutUint32)
(declare-fun zeros (Int) BStr)           ; n zero bytes
; bs: the byte string held by a backing array between off and off+len
(declare-fun bs ((Array Int Int) Int Int) BStr)

(assert (= (blen bempty) 0))
(assert (forall ((a BStr) (b BStr)) (! (= (blen (cat a b)) (+ (blen a) (blen b))) :pattern ((cat a b)))))
(assert (forall ((a BStr)) (! (>= (blen a) 0) :pattern ((blen a)))))
(assert (forall ((x Int)) (! (= (blen (single x)) 1) :pattern ((single x)))))
(assert (forall ((x Int)) (! (= (blen (le64 x)) 8) :pattern ((le64 x)))))
(assert (forall ((x Int)) (! (= (blen (be32 x)) 4) :pattern ((be32 x)))))
(assert (forall ((n Int)) (! (=> (>= n 0) (= (blen (zeros n)) n)) :pattern ((zeros n)))))
(assert (forall ((a (Array Int Int)) (o Int) (n Int)) (! (=> (>= n 0) (= (blen (bs a o n)) n)) :pattern ((bs a o n)))))
; zero padding: n zero bytes; prepending a zero byte; leading zeros do not change the big-endian value
(assert (= (zeros 0) bempty))
; a non-negative machine word encodes in at most 8 bytes
(assert (forall ((x Int)) (! (=> (and (<= 0 x) (< x 18446744073709551616)) (<= (blen (be x)) 8)) :pattern ((be x)))))
(assert (forall ((n Int)) (! (=> (>= n 0) (= (cat (single 0) (zeros n)) (zeros (+ n 1)))) :pattern ((cat (single 0) (zeros n))))))
(assert (forall ((n Int) (s BStr)) (! (=> (>= n 0) (= (cat (single 0) (cat (zeros n) s)) (cat (zeros (+ n 1)) s))) :pattern ((cat (single 0) (cat (zeros n) s))))))
(assert (forall ((n Int) (s BStr)) (! (=> (>= n 0) (= (beint (cat (zeros n) s)) (beint s))) :pattern ((cat (zeros n) s)))))
(assert (forall ((a (Array Int Int)) (o Int)) (! (= (bs a o 0) bempty) :pattern ((bs a o 0)))))
(assert (forall ((a BStr)) (! (= (cat a bempty) a) :pattern ((cat a bempty)))))
(assert (forall ((a BStr)) (! (= (cat bempty a) a) :pattern ((cat bempty a)))))
; decoding inverts encoding on non-negative integers; encodings are minimal
(assert (forall ((x Int)) (! (=> (>= x 0) (= (beint (be x)) x)) :pattern ((be x)))))
(assert (forall ((b BStr)) (! (>= (beint b) 0) :pattern ((beint b)))))
(assert (= (be 0) bempty))
(assert (forall ((x Int)) (! (= (be (- x)) (be x)) :pattern ((be (- x))))))
(assert (forall ((x Int)) (! (=> (not (= x 0)) (> (blen (be x)) 0)) :pattern ((be x)))))
; beint b < 256^(blen b): used as bit-length facts
(declare-fun pow2 (Int) Int)
(assert (= (pow2 0) 1))
(assert (forall ((n Int)) (! (=> (>= n 0) (> (pow2 n) 0)) :pattern ((pow2 n)))))
(assert (forall ((n Int) (m Int)) (! (=> (and (<= 0 n) (<= n m)) (<= (pow2 n) (pow2 m))) :pattern ((pow2 n) (pow2 m)))))
(assert (forall ((b BStr)) (! (< (beint b) (pow2 (* 8 (blen b)))) :pattern ((beint b)))))
; pow2 recurrence, instantiated only where a contract names the instance (lemPow2(n) is true for every n)
(declare-fun lemPow2 (Int) Bool)
(assert (forall ((n Int)) (! (and (lemPow2 n) (=> (>= n 1) (= (pow2 n) (* 2 (pow2 (- n 1)))))) :pattern ((lemPow2 n)))))
; leading byte(s) of a big-endian string bound its value from below (c is a literal where instantiated, so the product is linear)
(declare-fun lemLead (BStr Int) Bool)
(assert (forall ((a (Array Int Int)) (o Int) (n Int) (c Int)) (! (and (lemLead (bs a o n) c) (=> (and (>= n 1) (<= c (select a o))) (<= (* c (pow2 (* 8 (- n 1)))) (beint (bs a o n))))) :pattern ((lemLead (bs a o n) c)))))
(declare-fun lemLead2 (BStr Int) Bool)
(assert (forall ((a (Array Int Int)) (o Int) (n Int) (c Int)) (! (and (lemLead2 (bs a o n) c) (=> (and (>= n 2) (<= c (+ (* 256 (select a o)) (select a (+ o 1))))) (<= (* c (pow2 (* 8 (- n 2)))) (beint (bs a o n))))) :pattern ((lemLead2 (bs a o n) c)))))

; ----- number theory (uninterpreted, with the facts the proofs need) -----
(declare-fun gcd (Int Int) Int)
(declare-fun jacobi (Int Int) Int)
(declare-fun bitlen (Int) Int)
(declare-fun powmod (Int Int Int) Int)    ; x^y mod m for y >= 0 and, when gcd(x,m)=1, y < 0
(declare-fun invmod (Int Int) Int)        ; inverse of x modulo m when gcd(x,m)=1
(declare-fun isqrt (Int) Int)
(declare-fun probprime (Int Int) Bool)
(assert (forall ((a Int) (b Int)) (! (>= (gcd a b) 0) :pattern ((gcd a b)))))
(assert (forall ((a Int) (b Int)) (! (= (gcd a b) (gcd b a)) :pattern ((gcd a b)))))
(assert (forall ((a Int)) (! (= (gcd a 0) (ite (>= a 0) a (- a))) :pattern ((gcd a 0)))))
(assert (forall ((a Int) (b Int)) (! (=> (= (gcd a b) 0) (and (= a 0) (= b 0))) :pattern ((gcd a b)))))
(assert (forall ((a Int) (b Int)) (! (and (<= (- 1) (jacobi a b)) (<= (jacobi a b) 1)) :pattern ((jacobi a b)))))
(assert (forall ((x Int)) (! (and (>= (bitlen x) 0) (= (bitlen x) (bitlen (- x)))) :pattern ((bitlen x)))))
(assert (= (bitlen 0) 0))
(assert (forall ((x Int)) (! (=> (> x 0) (and (> (bitlen x) 0) (<= (pow2 (- (bitlen x) 1)) x) (< x (pow2 (bitlen x))))) :pattern ((bitlen x)))))
; the bit length is determined by the enclosing powers of two (instantiated where a contract names the instance)
(declare-fun lemBitlen (Int Int) Bool)
(assert (forall ((x Int) (k Int)) (! (and (lemBitlen x k) (=> (and (>= k 1) (<= (pow2 (- k 1)) x) (< x (pow2 k))) (= (bitlen x) k))) :pattern ((lemBitlen x k)))))
(assert (forall ((x Int) (y Int) (m Int)) (! (=> (> m 0) (and (<= 0 (powmod x y m)) (< (powmod x y m) m))) :pattern ((powmod x y m)))))
(assert (forall ((x Int) (m Int)) (! (=> (and (> m 1) (= (gcd x m) 1)) (and (< 0 (invmod x m)) (< (invmod x m) m))) :pattern ((invmod x m)))))
(assert (forall ((x Int)) (! (=> (>= x 0) (and (>= (isqrt x) 0) (<= (* (isqrt x) (isqrt x)) x))) :pattern ((isqrt x)))))

; ----- hashing (uninterpreted) -----
(declare-fun hashfn (Int BStr) BStr)      ; kind, input -> digest
(declare-fun hashlen (Int) Int)
(assert (forall ((k Int) (b BStr)) (! (= (blen (hashfn k b)) (hashlen k)) :pattern ((hashfn k b)))))
(assert (forall ((k Int)) (! (> (hashlen k) 0) :pattern ((hashlen k)))))

; ----- elliptic curves (uninterpreted) -----
; curves are identified by the reference of their elliptic.Curve value's dynamic payload
(declare-fun oncurve (Iface Int Int) Bool)
(declare-fun curveN (Iface) Int)          ; group order
(declare-fun curveP (Iface) Int)
(declare-fun curveGx (Iface) Int)
(declare-fun curveGy (Iface) Int)
(declare-fun curveBits (Iface) Int)
(declare-fun ecaddx (Iface Int Int Int Int) Int)
(declare-fun ecaddy (Iface Int Int Int Int) Int)
(declare-fun ecmulx (Iface Int Int Int) Int)   ; curve, x, y, k
(declare-fun ecmuly (Iface Int Int Int) Int)
(declare-fun ecbasex (Iface Int) Int)
(declare-fun ecbasey (Iface Int) Int)
(declare-fun issecp (Iface) Bool)         ; btcec secp256k1 (panics on the identity)
(assert (forall ((c Iface)) (! (> (curveN c) 1) :pattern ((curveN c)))))
(assert (forall ((c Iface)) (! (> (curveP c) 3) :pattern ((curveP c)))))
(assert (forall ((c Iface)) (! (and (> (curveBits c) 0) (<= (curveBits c) 1024)) :pattern ((curveBits c)))))

; ----- misc -----
(declare-fun ipow (Int Int) Int)
(declare-fun bigstr (Int Bool) Int)       ; decimal text of a big.Int ("<nil>" for a nil pointer)
(declare-fun unbigstr (Int) Int)
(assert (forall ((x Int)) (! (= (unbigstr (bigstr x false)) x) :pattern ((bigstr x false)))))
(assert (forall ((x Int) (b Bool)) (! (> (bigstr x b) 0) :pattern ((bigstr x b)))))
(declare-fun isedw (Iface) Bool)          ; dcrd edwards25519
(define-fun secpN () Int 115792089237316195423570985008687907852837564279074904382605163141518161494337)
(define-fun edN () Int 7237005577332262213973186563042994240857116359379907606001950938285454250989)
(assert (forall ((c Iface)) (! (=> (issecp c) (and (= (curveN c) secpN) (= (curveBits c) 256) (not (isedw c)))) :pattern ((issecp c)))))
(assert (forall ((c Iface)) (! (=> (isedw c) (and (= (curveN c) edN) (= (curveBits c) 256))) :pattern ((isedw c)))))
(assert (forall ((c Iface)) (! (oncurve c (curveGx c) (curveGy c)) :pattern ((curveGx c)))))
(assert (forall ((x Int) (n Int)) (! (=> (and (= x 2) (>= n 0)) (= (ipow x n) (pow2 n))) :pattern ((ipow x n)))))
(assert (forall ((n Int)) (! (=> (>= n 1) (>= (pow2 n) 2)) :pattern ((pow2 n)))))

; ----- symbolic products (kept out of nonlinear arithmetic) -----
(declare-fun imul (Int Int) Int)
(assert (forall ((a Int) (b Int)) (! (= (imul a b) (imul b a)) :pattern ((imul a b)))))
(assert (forall ((a Int) (b Int)) (! (=> (and (>= a 0) (>= b 0)) (>= (imul a b) 0)) :pattern ((imul a b)))))
(assert (forall ((a Int) (b Int)) (! (=> (and (> a 0) (> b 0)) (and (>= (imul a b) a) (>= (imul a b) b))) :pattern ((imul a b)))))
(assert (forall ((a Int) (b Int)) (! (=> (or (= a 0) (= b 0)) (= (imul a b) 0)) :pattern ((imul a b)))))
(assert (forall ((a Int) (b Int)) (! (=> (= a 1) (= (imul a b) b)) :pattern ((imul a b)))))
(assert (forall ((a Int) (b Int)) (! (=> (= a 2) (= (imul a b) (* 2 b))) :pattern ((imul a b)))))
; product of two L-bit numbers with both top bits set has exactly 2L bits: (3*2^(L-2))^2 = 9*2^(2L-4) >= 2^(2L-1)
(declare-fun lemTopProduct (Int Int Int) Bool)
(assert (forall ((x Int) (y Int) (l Int)) (! (and (lemTopProduct x y l) (=> (and (>= l 2) (<= (* 3 (pow2 (- l 2))) x) (< x (pow2 l)) (<= (* 3 (pow2 (- l 2))) y) (< y (pow2 l))) (and (<= (pow2 (- (* 2 l) 1)) (imul x y)) (< (imul x y) (pow2 (* 2 l)))))) :pattern ((lemTopProduct x y l)))))
(assert (forall ((a Int) (b Int)) (! (=> (not (= (imul a b) 0)) (and (not (= a 0)) (not (= b 0)))) :pattern ((imul a b)))))
(assert (forall ((a Int) (b Int)) (! (=> (and (> a 1) (> b 1)) (and (> (imul a b) a) (> (imul a b) b))) :pattern ((imul a b)))))
(assert (forall ((a Int) (b Int)) (! (=> (and (> a 0) (> b 0)) (and (<= (bitlen (imul a b)) (+ (bitlen a) (bitlen b))) (>= (bitlen (imul a b)) (bitlen a)) (>= (bitlen (imul a b)) (bitlen b)))) :pattern ((bitlen (imul a b))))))

; ----- hash input framing (common/hash.go) -----
; bs of a single element
(assert (forall ((a (Array Int Int)) (o Int)) (! (= (bs a o 1) (single (select a o))) :pattern ((bs a o 1)))))
; framei(init, R, o, n, B): init followed by, for k < n, be(B[R[o+k]]) '$' le64(len)   (SHA512_256i / _TAGGED data)
; R = backing array of the []*big.Int, B = big.Int value heap. frameiz is the
; same function with no unfolding axiom (one level of unfolding per term).
(declare-fun framei (BStr (Array Int Int) Int Int (Array Int Int)) BStr)
(declare-fun frameiz (BStr (Array Int Int) Int Int (Array Int Int)) BStr)
(assert (forall ((i BStr) (r (Array Int Int)) (o Int) (n Int) (b (Array Int Int))) (! (= (framei i r o n b) (frameiz i r o n b)) :pattern ((framei i r o n b)))))
(assert (forall ((i BStr) (r (Array Int Int)) (o Int) (n Int) (b (Array Int Int))) (! (=> (<= n 0) (= (framei i r o n b) i)) :pattern ((framei i r o n b)))))
(assert (forall ((i BStr) (r (Array Int Int)) (o Int) (n Int) (b (Array Int Int))) (! (=> (> n 0) (= (framei i r o n b) (cat (cat (cat (frameiz i r o (- n 1) b) (be (ite (= (select r (+ o (- n 1))) 0) 0 (select b (select r (+ o (- n 1))))))) (single 36)) (le64 (blen (be (ite (= (select r (+ o (- n 1))) 0) 0 (select b (select r (+ o (- n 1))))))))))) :pattern ((framei i r o n b)))))
; frameb(init, S, o, n, E): the same over a [][]byte: S = backing array of slices, E = byte heap (SHA512_256 data)
(declare-fun frameb (BStr (Array Int Slice) Int Int (Array Int (Array Int Int))) BStr)
(declare-fun framebz (BStr (Array Int Slice) Int Int (Array Int (Array Int Int))) BStr)
(assert (forall ((i BStr) (s (Array Int Slice)) (o Int) (n Int) (e (Array Int (Array Int Int)))) (! (= (frameb i s o n e) (framebz i s o n e)) :pattern ((frameb i s o n e)))))
(assert (forall ((i BStr) (s (Array Int Slice)) (o Int) (n Int) (e (Array Int (Array Int Int)))) (! (=> (<= n 0) (= (frameb i s o n e) i)) :pattern ((frameb i s o n e)))))
(assert (forall ((i BStr) (s (Array Int Slice)) (o Int) (n Int) (e (Array Int (Array Int Int)))) (! (=> (> n 0) (= (frameb i s o n e) (cat (cat (cat (framebz i s o (- n 1) e) (bs (select e (s-arr (select s (+ o (- n 1))))) (s-off (select s (+ o (- n 1)))) (s-len (select s (+ o (- n 1)))))) (single 36)) (le64 (s-len (select s (+ o (- n 1)))))))) :pattern ((frameb i s o n e)))))
(assert (forall ((i BStr) (s (Array Int Slice)) (o Int) (n Int) (e (Array Int (Array Int Int)))) (! (=> (<= n 0) (= (framebz i s o n e) i)) :pattern ((framebz i s o n e)))))
(assert (forall ((i BStr) (r (Array Int Int)) (o Int) (n Int) (b (Array Int Int))) (! (=> (<= n 0) (= (frameiz i r o n b) i)) :pattern ((frameiz i r o n b)))))
(define-fun HK512_256 () Int 15)   ; crypto.SHA512_256
(assert (= (hashlen 15) 32))

; ----- element addresses: idx(off, k) = off + k, kept as a symbol so that patterns over slice elements are arithmetic-free -----
(declare-fun idx (Int Int) Int)
(assert (forall ((o Int) (k Int)) (! (= (idx o k) (+ o k)) :pattern ((idx o k)))))
; element objects of a slice of struct values: element k of backing array a
(declare-fun selem (Int Int) Int)
(assert (forall ((a Int) (k Int)) (! (= (selem a k) (+ a 1 k)) :pattern ((selem a k)))))

; ----- polynomial evaluation as computed by vss.evaluatePolynomial (one-level unfolding, see framei) -----
(declare-fun xpow (Int Int Int) Int)     ; x^n mod q by repeated multiplication
(declare-fun xpowz (Int Int Int) Int)
(assert (forall ((x Int) (n Int) (q Int)) (! (= (xpow x n q) (xpowz x n q)) :pattern ((xpow x n q)))))
(assert (forall ((x Int) (n Int) (q Int)) (! (=> (<= n 0) (= (xpow x n q) 1)) :pattern ((xpow x n q)))))
(assert (forall ((x Int) (n Int) (q Int)) (! (=> (> n 0) (= (xpow x n q) (mod (imul (xpowz x (- n 1) q) x) q))) :pattern ((xpow x n q)))))
; polyv(R, o, n, B, x, q) = a_0 + sum_{1<=k<=n} a_k x^k reduced mod q at every step, a_k = B[R[idx(o,k)]]
(declare-fun polyv ((Array Int Int) Int Int (Array Int Int) Int Int) Int)
(declare-fun polyvz ((Array Int Int) Int Int (Array Int Int) Int Int) Int)
(assert (forall ((r (Array Int Int)) (o Int) (n Int) (b (Array Int Int)) (x Int) (q Int)) (! (= (polyv r o n b x q) (polyvz r o n b x q)) :pattern ((polyv r o n b x q)))))
(assert (forall ((r (Array Int Int)) (o Int) (n Int) (b (Array Int Int)) (x Int) (q Int)) (! (=> (<= n 0) (= (polyv r o n b x q) (select b (select r (idx o 0))))) :pattern ((polyv r o n b x q)))))
(assert (forall ((r (Array Int Int)) (o Int) (n Int) (b (Array Int Int)) (x Int) (q Int)) (! (=> (> n 0) (= (polyv r o n b x q) (mod (+ (polyvz r o (- n 1) b x q) (imul (select b (select r (idx o n))) (xpow x n q))) q))) :pattern ((polyv r o n b x q)))))

; ----- the two curve orders are prime: a product of non-multiples is a non-multiple (Euclid) -----
(assert (forall ((a Int) (b Int)) (! (=> (and (not (= (mod a secpN) 0)) (not (= (mod b secpN) 0))) (not (= (mod (imul a b) secpN) 0))) :pattern ((mod (imul a b) secpN)))))
(assert (forall ((a Int) (b Int)) (! (=> (and (not (= (mod a edN) 0)) (not (= (mod b edN) 0))) (not (= (mod (imul a b) edN) 0))) :pattern ((mod (imul a b) edN)))))
(assert (= (bitlen secpN) 256))
(assert (= (bitlen edN) 253))
(assert (forall ((x Int)) (! (=> (>= x 1) (and (>= (isqrt x) 1) (<= (isqrt x) x))) :pattern ((isqrt x)))))

; ----- observable attributes of tss.ParsedMessage / MessageContent interface values -----
(declare-fun msgcontent (Iface) Iface)
(declare-fun msgbcast (Iface) Bool)
(declare-fun msgfrom (Iface) Int)
(declare-fun msgvalid (Iface) Bool)
(declare-fun cvalid (Iface) Bool)

; ----- signature verification predicates (crypto/ecdsa.Verify, edwards.Verify): curve, public key, message bytes, r, s -----
(declare-fun ecdsaverify (Iface Int Int BStr Int Int) Bool)
(declare-fun eddsaverify (Iface Int Int BStr Int Int) Bool)

; ----- cofactor clearing on the Edwards curve: the point has no small-order component -----
(declare-fun torsionfree (Iface Int Int) Bool)

; ----- outcome of the Paillier key-correctness proof check (paillier.Proof.Verify): proof entries, their values, modulus, prover key, public key -----
(declare-fun pailverify ((Array Int Int) (Array Int Int) Int Int Int Int) Bool)
