package main

import (
	"fmt"
	"go/token"
	"go/types"
	"os"
	"path/filepath"
	"sort"
	"strings"
	"sync"

	"golang.org/x/tools/go/packages"
	"golang.org/x/tools/go/ssa"
	"golang.org/x/tools/go/ssa/ssautil"
)

const repoModule = "github.com/bnb-chain/tss-lib/v2"

type specFun struct {
	args []string
	res  string
}

type Program struct {
	fset     *token.FileSet
	prog     *ssa.Program
	pkgs     []*packages.Package
	spkgs    map[string]*ssa.Package // by path
	cs       *ContractSet
	prelude  string
	specFuns map[string]specFun

	mu       sync.Mutex
	strIDs   map[string]int
	globals  map[*ssa.Global]int
	globVar  map[*types.Var]*ssa.Global
	funcs    map[*ssa.Function]int
	nstatic  int
	typeTags map[string]int
	typeOf   map[string]types.Type
	byKey    map[string]*ssa.Function
	verifDir string
	repoDir  string
}

func loadProgram(repoDir, verifDir string) (*Program, error) {
	cfg := &packages.Config{Mode: packages.LoadAllSyntax, Dir: repoDir, BuildFlags: []string{"-tags=verif"},
		Env: append(os.Environ(), "GOFLAGS=-mod=mod", "GOPROXY=off", "GOSUMDB=off", "GOTOOLCHAIN=local")}
	pkgs, err := packages.Load(cfg, "./...")
	if err != nil {
		return nil, err
	}
	nerr := 0
	packages.Visit(pkgs, nil, func(p *packages.Package) {
		for _, e := range p.Errors {
			if strings.HasPrefix(p.PkgPath, repoModule) {
				fmt.Fprintln(os.Stderr, "load error:", e)
				nerr++
			}
		}
	})
	if nerr > 0 {
		return nil, fmt.Errorf("%d load errors in %s", nerr, repoDir)
	}
	prog, _ := ssautil.AllPackages(pkgs, ssa.GlobalDebug)
	prog.Build()
	P := &Program{fset: prog.Fset, prog: prog, pkgs: pkgs, spkgs: map[string]*ssa.Package{}, cs: newContractSet(),
		strIDs: map[string]int{}, globals: map[*ssa.Global]int{}, globVar: map[*types.Var]*ssa.Global{}, funcs: map[*ssa.Function]int{},
		typeTags: map[string]int{}, typeOf: map[string]types.Type{}, byKey: map[string]*ssa.Function{}, specFuns: map[string]specFun{},
		verifDir: verifDir, repoDir: repoDir}
	for _, sp := range prog.AllPackages() {
		P.spkgs[sp.Pkg.Path()] = sp
	}
	// static objects: globals then functions, deterministic numbering
	var gl []*ssa.Global
	for _, sp := range prog.AllPackages() {
		for _, m := range sp.Members {
			if g, ok := m.(*ssa.Global); ok {
				gl = append(gl, g)
			}
		}
	}
	sort.Slice(gl, func(i, j int) bool { return gl[i].String() < gl[j].String() })
	for i, g := range gl {
		P.globals[g] = i + 1
		if v, ok := g.Object().(*types.Var); ok {
			P.globVar[v] = g
		}
	}
	P.nstatic = len(gl)
	var fl []*ssa.Function
	for f := range ssautil.AllFunctions(prog) {
		fl = append(fl, f)
	}
	sort.Slice(fl, func(i, j int) bool { return fl[i].String() < fl[j].String() })
	for _, f := range fl {
		P.nstatic++
		P.funcs[f] = P.nstatic
		if strings.HasPrefix(f.String(), repoModule) || strings.HasPrefix(f.String(), "(*"+repoModule) || strings.HasPrefix(f.String(), "("+repoModule) {
			P.byKey[funcKey(f)] = f
		}
	}
	// every function, method and closure of the repository's packages, whether
	// or not anything references it
	var extra []*ssa.Function
	defer func() {
		sort.Slice(extra, func(i, j int) bool { return extra[i].String() < extra[j].String() })
		for _, f := range extra {
			if _, ok := P.funcs[f]; !ok {
				P.nstatic++
				P.funcs[f] = P.nstatic
			}
		}
	}()
	var addFn func(f *ssa.Function)
	addFn = func(f *ssa.Function) {
		if f == nil {
			return
		}
		if _, ok := P.byKey[funcKey(f)]; !ok || len(f.Blocks) > 0 {
			P.byKey[funcKey(f)] = f
		}
		if _, ok := P.funcs[f]; !ok {
			extra = append(extra, f)
		}
		for _, a := range f.AnonFuncs {
			addFn(a)
		}
	}
	for _, sp := range prog.AllPackages() {
		if !strings.HasPrefix(sp.Pkg.Path(), repoModule) {
			continue
		}
		for _, m := range sp.Members {
			switch x := m.(type) {
			case *ssa.Function:
				addFn(x)
			case *ssa.Type:
				for _, t := range []types.Type{x.Type(), types.NewPointer(x.Type())} {
					ms := prog.MethodSets.MethodSet(t)
					for i := 0; i < ms.Len(); i++ {
						f := prog.MethodValue(ms.At(i))
						if f != nil && f.Synthetic == "" {
							addFn(f)
						}
					}
				}
			}
		}
	}
	// named types of the repository get stable tags
	var tn []string
	for _, p := range pkgs {
		sc := p.Types.Scope()
		for _, n := range sc.Names() {
			if o, ok := sc.Lookup(n).(*types.TypeName); ok {
				t := o.Type()
				tn = append(tn, typeKey(t), typeKey(types.NewPointer(t)))
				P.typeOf[typeKey(t)] = t
				P.typeOf[typeKey(types.NewPointer(t))] = types.NewPointer(t)
			}
		}
	}
	sort.Strings(tn)
	for _, k := range tn {
		if _, ok := P.typeTags[k]; !ok {
			P.typeTags[k] = len(P.typeTags) + 1
		}
	}
	return P, nil
}

func (P *Program) nStatic() int { return P.nstatic }

func (P *Program) globalRef(g *ssa.Global) int { return P.globals[g] }
func (P *Program) globalOf(v *types.Var) *ssa.Global {
	return P.globVar[v]
}
func (P *Program) funcRef(f *ssa.Function) int {
	if n, ok := P.funcs[f]; ok {
		return n
	}
	return 0
}

func (P *Program) typeTag(t types.Type) int {
	k := typeKey(t)
	P.mu.Lock()
	defer P.mu.Unlock()
	if n, ok := P.typeTags[k]; ok {
		return n
	}
	n := len(P.typeTags) + 1
	P.typeTags[k] = n
	P.typeOf[k] = t
	return n
}

// typeByName resolves "*signing.SignRound2Message", "crypto/mta.ProofBob", ...
func (P *Program) typeByName(name string) types.Type {
	ptr := strings.HasPrefix(name, "*")
	n := strings.TrimPrefix(name, "*")
	k := strings.LastIndex(n, ".")
	if k < 0 {
		return nil
	}
	pn, tn := n[:k], n[k+1:]
	var found types.Type
	for _, sp := range P.prog.AllPackages() {
		path := sp.Pkg.Path()
		short := trimPkg(path)
		if short == pn || path == pn || (!strings.Contains(pn, "/") && sp.Pkg.Name() == pn && strings.HasPrefix(path, repoModule)) ||
			(!strings.Contains(pn, "/") && path == pn) {
			if o, ok := sp.Pkg.Scope().Lookup(tn).(*types.TypeName); ok {
				found = o.Type()
				if short == pn || path == pn {
					break
				}
			}
		}
	}
	if found == nil {
		return nil
	}
	if ptr {
		return types.NewPointer(found)
	}
	return found
}

// pkgByName resolves a package by its name or repo-relative path.
func (P *Program) pkgByName(name string) *types.Package {
	var cands []*types.Package
	if sp, ok := P.spkgs[repoModule+"/"+name]; ok {
		return sp.Pkg
	}
	for _, sp := range P.prog.AllPackages() {
		path := sp.Pkg.Path()
		if trimPkg(path) == name || path == name {
			return sp.Pkg
		}
		if sp.Pkg.Name() == name {
			cands = append(cands, sp.Pkg)
		}
	}
	// prefer repository packages, then a unique match
	var repo []*types.Package
	for _, c := range cands {
		if strings.HasPrefix(c.Path(), repoModule) {
			repo = append(repo, c)
		}
	}
	if len(repo) == 1 {
		return repo[0]
	}
	if len(cands) == 1 {
		return cands[0]
	}
	// well-known standard packages
	for _, c := range cands {
		switch c.Path() {
		case "math/big", "crypto/elliptic", "errors", "fmt":
			return c
		}
	}
	return nil
}

// isInterfaceMethod: key "(pkg.I).M" where pkg.I is an interface type with method M.
func (P *Program) isInterfaceMethod(key string) bool {
	if !strings.HasPrefix(key, "(") || strings.HasPrefix(key, "(*") {
		return false
	}
	k := strings.Index(key, ").")
	if k < 0 {
		return false
	}
	t := P.typeByName(key[1:k])
	if t == nil {
		return false
	}
	it, ok := t.Underlying().(*types.Interface)
	if !ok {
		return false
	}
	for i := 0; i < it.NumMethods(); i++ {
		if it.Method(i).Name() == key[k+2:] {
			return true
		}
	}
	return false
}

func (P *Program) contractFor(key string) *Contract {
	if c, ok := P.cs.ByKey[key]; ok {
		return c
	}
	// wildcard: "pkg.*" or "(*pkg.T).*"
	if k := strings.LastIndex(key, "."); k >= 0 {
		if c, ok := P.cs.ByKey[key[:k]+".*"]; ok {
			return c
		}
	}
	// closures of wildcarded packages
	if k := strings.Index(key, "$"); k >= 0 {
		return P.contractFor(key[:k])
	}
	return nil
}

// loadContracts reads repo contract files (zz_contracts_verif.go), library
// contracts and prelude files.
func (P *Program) loadContracts() error {
	// prelude SMT
	pre, err := filepath.Glob(filepath.Join(P.verifDir, "prelude", "*.smt2"))
	if err != nil {
		return err
	}
	sort.Strings(pre)
	for _, f := range pre {
		b, err := os.ReadFile(f)
		if err != nil {
			return err
		}
		P.prelude += string(b) + "\n"
		P.cs.Files = append(P.cs.Files, f)
	}
	P.parseSpecFuns()
	specs, _ := filepath.Glob(filepath.Join(P.verifDir, "prelude", "*.spec"))
	sort.Strings(specs)
	for _, f := range specs {
		if err := P.cs.parseContractFile(f, "", false); err != nil {
			return err
		}
	}
	libs, _ := filepath.Glob(filepath.Join(P.verifDir, "libcontracts", "*.spec"))
	sort.Strings(libs)
	for _, f := range libs {
		if err := P.cs.parseContractFile(f, "", false); err != nil {
			return err
		}
	}
	for _, p := range P.pkgs {
		if !strings.HasPrefix(p.PkgPath, repoModule) {
			continue
		}
		for _, f := range p.GoFiles {
			if strings.HasSuffix(f, "_verif.go") {
				if err := P.cs.parseContractFile(f, trimPkg(p.PkgPath), true); err != nil {
					return err
				}
			}
		}
	}
	return nil
}

// parseSpecFuns extracts the signatures of declare-fun / define-fun /
// define-fun-rec / declare-const from the prelude.
func (P *Program) parseSpecFuns() {
	toks := sexprTokens(P.prelude)
	i := 0
	var parse func() interface{}
	parse = func() interface{} {
		if i >= len(toks) {
			return nil
		}
		t := toks[i]
		i++
		if t == "(" {
			var l []interface{}
			for i < len(toks) && toks[i] != ")" {
				l = append(l, parse())
			}
			i++
			return l
		}
		return t
	}
	str := func(x interface{}) string { return sexprString(x) }
	for i < len(toks) {
		e, ok := parse().([]interface{})
		if !ok || len(e) < 3 {
			continue
		}
		head, _ := e[0].(string)
		switch head {
		case "declare-fun":
			name, _ := e[1].(string)
			var args []string
			if l, ok := e[2].([]interface{}); ok {
				for _, a := range l {
					args = append(args, str(a))
				}
			}
			P.specFuns[name] = specFun{args, str(e[3])}
		case "declare-const":
			name, _ := e[1].(string)
			P.specFuns[name] = specFun{nil, str(e[2])}
		case "define-fun", "define-fun-rec":
			name, _ := e[1].(string)
			var args []string
			if l, ok := e[2].([]interface{}); ok {
				for _, a := range l {
					if p, ok := a.([]interface{}); ok && len(p) == 2 {
						args = append(args, str(p[1]))
					}
				}
			}
			P.specFuns[name] = specFun{args, str(e[3])}
		}
	}
}

func sexprTokens(s string) []string {
	var out []string
	i := 0
	for i < len(s) {
		c := s[i]
		switch {
		case c == ';':
			for i < len(s) && s[i] != '\n' {
				i++
			}
		case c == ' ' || c == '\n' || c == '\t' || c == '\r':
			i++
		case c == '(' || c == ')':
			out = append(out, string(c))
			i++
		case c == '|':
			j := i + 1
			for j < len(s) && s[j] != '|' {
				j++
			}
			out = append(out, s[i:j+1])
			i = j + 1
		case c == '"':
			j := i + 1
			for j < len(s) && s[j] != '"' {
				j++
			}
			out = append(out, s[i:j+1])
			i = j + 1
		default:
			j := i
			for j < len(s) && !strings.ContainsRune(" \n\t\r()", rune(s[j])) {
				j++
			}
			out = append(out, s[i:j])
			i = j
		}
	}
	return out
}

func sexprString(x interface{}) string {
	switch v := x.(type) {
	case string:
		return v
	case []interface{}:
		var p []string
		for _, y := range v {
			p = append(p, sexprString(y))
		}
		return "(" + strings.Join(p, " ") + ")"
	}
	return ""
}
