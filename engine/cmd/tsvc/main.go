package main

import (
	"crypto/sha256"
	"encoding/hex"
	"encoding/json"
	"flag"
	"fmt"
	"os"
	"path/filepath"
	"sort"
	"strings"
	"sync"
	"time"

	"golang.org/x/tools/go/ssa"
)

type FuncResult struct {
	Key      string
	Props    []string
	Obls     []*Obligation
	Unsup    string   // non-empty: function outside the subset (reason)
	Abstract []string // constructs abstracted
	Assumed  []string
	Callees  []string
	Script   string
	Secs     float64
	Trusted  bool
	Lines    int
	G        *Gen // first path variant (replay of candidate models)
}

func (P *Program) newGen(fn *ssa.Function, ct *Contract, tier string) *Gen {
	return &Gen{P: P, fn: fn, ct: ct, key: funcKey(fn), tier: tier,
		declared: map[string]bool{}, heapSort: map[string]string{}, vals: map[ssa.Value]Val{},
		oblCount: map[string]int{}, callees: map[string]bool{}, siteOrd: map[string]int{},
		blockSplits: map[*ssa.BasicBlock][][]string{}, fldK: map[string]int{}, pendArr: map[*ssa.Alloc]*pendingArr{}, frameTags: map[string]bool{}, frameDone: map[string]bool{}, verAlloc: map[string]string{}, tagAlloc: map[string]string{}, versions: map[string][]heapVersion{}, heapKind: map[string]string{}}
}

func (P *Program) generate(fn *ssa.Function, ct *Contract, tier string, dead map[[2]int]bool) (g *Gen, unsup string) {
	g = P.newGen(fn, ct, tier)
	g.deadEdge = dead
	defer func() {
		if r := recover(); r != nil {
			switch e := r.(type) {
			case unsupportedErr:
				unsup = e.msg + " at " + P.fset.Position(g.curPos).String()
			case specErr:
				unsup = "contract error: " + e.msg
			default:
				panic(r)
			}
		}
	}()
	g.run()
	return g, ""
}

func (g *Gen) script() string {
	var b strings.Builder
	b.WriteString(smtPreamble)
	b.WriteString(g.P.prelude)
	for _, l := range g.lines {
		b.WriteString(l)
		b.WriteByte('\n')
	}
	return b.String()
}

// liteScript drops every quantified line (prelude axioms and quantified
// assumptions); used only to find candidate counterexamples.
func liteScript(g *Gen) string {
	var b strings.Builder
	b.WriteString(smtPreamble)
	for _, l := range strings.Split(g.P.prelude, "\n") {
		if strings.Contains(l, "(forall") || strings.Contains(l, "(exists") {
			continue
		}
		b.WriteString(l)
		b.WriteByte('\n')
	}
	for _, l := range g.lines {
		if strings.HasPrefix(l, "(assert") && (strings.Contains(l, "(forall") || strings.Contains(l, "(exists")) {
			continue
		}
		b.WriteString(l)
		b.WriteByte('\n')
	}
	return b.String()
}

var jointFirst = false

var workDir string
var cacheDir string
var useCache = true

type cacheEntry struct {
	Status string
	Solver string
	Secs   float64
}

func cacheGet(h string) (cacheEntry, bool) {
	if !useCache {
		return cacheEntry{}, false
	}
	b, err := os.ReadFile(filepath.Join(cacheDir, h[:2], h))
	if err != nil {
		return cacheEntry{}, false
	}
	var e cacheEntry
	if json.Unmarshal(b, &e) != nil {
		return cacheEntry{}, false
	}
	return e, true
}

func cachePut(h string, e cacheEntry) {
	if !useCache {
		return
	}
	b, _ := json.Marshal(e)
	_ = writeFile(filepath.Join(cacheDir, h[:2], h), string(b))
}

func hashStr(s string) string {
	x := sha256.Sum256([]byte(s))
	return hex.EncodeToString(x[:])
}

func safeName(s string) string {
	r := strings.NewReplacer("/", "_", "(", "", ")", "", "*", "P", "$", "_", " ", "_", "#", "_", "<", "", ">", "")
	return r.Replace(s)
}

// discharge solves all obligations of a generated function.
func (P *Program) discharge(g *Gen, timeoutS int, confirm bool) {
	base := g.script()
	dir := filepath.Join(workDir, safeName(g.key))
	if g.variant > 0 {
		dir += fmt.Sprintf(".v%d", g.variant)
	}
	_ = os.MkdirAll(dir, 0o755)
	var goals []*Obligation
	for _, ob := range g.obls {
		if ob.Kind == "cover" {
			continue
		}
		goals = append(goals, ob)
	}
	// cover: base script must not be unsat (runs concurrently with the goals)
	var cwg sync.WaitGroup
	cwg.Add(1)
	defer cwg.Wait()
	covers := append([]*Obligation{}, g.obls...)
	go func() {
		defer cwg.Done()
		P.covers(g, covers, base, dir)
		P.smoke(g, base, dir)
	}()
	if len(goals) == 0 {
		return
	}
	P.dischargeGoals(g, goals, base, dir, timeoutS, confirm)
}

func (P *Program) covers(g *Gen, obls []*Obligation, base, dir string) {
	for _, ob := range obls {
		if ob.Kind != "cover" {
			continue
		}
		// some return must be reachable under all the assumptions made on the way
		coverGoal := ""
		if len(g.retReach) > 0 {
			coverGoal = "(assert " + or(g.retReach...) + ")\n"
		}
		scr := base + coverGoal + "(check-sat)\n"
		h := hashStr("cover\n" + scr)
		if ce, ok := cacheGet(h); ok {
			ob.Status, ob.Solver, ob.Secs = ce.Status, ce.Solver+" (cached)", ce.Secs
			continue
		}
		f := filepath.Join(dir, "cover.smt2")
		_ = writeFile(f, scr)
		r := runSolver(solvers[0], f, 1)
		switch r.Status {
		case "unsat":
			ob.Status = "vacuous"
		case "sat":
			ob.Status = "covered"
		default:
			// the quantified axioms keep the solver from answering sat; without
			// them a model of the preconditions is found quickly
			lf := filepath.Join(dir, "cover.lite.smt2")
			_ = writeFile(lf, liteScript(g)+coverGoal+"(check-sat)\n")
			lr := runSolver(solvers[0], lf, 2)
			switch lr.Status {
			case "sat":
				ob.Status = "covered"
			case "unsat":
				ob.Status = "vacuous"
			default:
				ob.Status = "cover-unknown"
			}
		}
		ob.Solver, ob.Secs, ob.Output = r.Solver, r.Secs, r.Output
		cachePut(h, cacheEntry{ob.Status, r.Solver, r.Secs})
	}
}

func (P *Program) dischargeGoals(g *Gen, goals []*Obligation, base, dir string, timeoutS int, confirm bool) {
	// 1. all goals at once
	var fs []string
	for _, ob := range goals {
		fs = append(fs, ob.Form)
	}
	all := base + "(assert (not " + and(fs...) + "))\n(check-sat)\n"
	h := hashStr(all)
	if ce, ok := cacheGet(h); ok && ce.Status == "unsat" && !confirm {
		for _, ob := range goals {
			ob.Status, ob.Solver, ob.Secs = "unsat", ce.Solver+" (cached, joint)", ce.Secs/float64(len(goals))
		}
		return
	}
	if len(goals) > 1 && jointFirst {
		f := filepath.Join(dir, "all.smt2")
		_ = writeFile(f, all)
		r, _ := solve(f, min(timeoutS, 6), false)
		if r.Status == "unsat" && !confirm {
			cachePut(h, cacheEntry{"unsat", r.Solver, r.Secs})
			for _, ob := range goals {
				ob.Status, ob.Solver, ob.Secs = "unsat", r.Solver+" (joint)", r.Secs/float64(len(goals))
			}
			return
		}
	}
	// 1b. batches: the function's script is loaded once per batch and every goal
	// of the batch is one check-sat-assuming on a literal defined as the goal
	// (no push/pop); an `unsat` answer discharges the goal exactly as the
	// single-goal script would (same assertions, same negated goal). Goals the
	// batch does not decide go on to the individual runs below.
	if !confirm && os.Getenv("TSVC_NOBATCH") == "" {
		P.batchGoals(goals, base, dir)
	}
	// 2. individually, in parallel
	var wg sync.WaitGroup
	for i, ob := range goals {
		if ob.Status == "unsat" && !confirm {
			continue
		}
		wg.Add(1)
		go func(i int, ob *Obligation) {
			defer wg.Done()
			scr := base + "(assert (not " + ob.Form + "))\n(check-sat)\n"
			h := hashStr(scr)
			if ce, ok := cacheGet(h); ok && !confirm {
				ob.Status, ob.Solver, ob.Secs = ce.Status, ce.Solver+" (cached)", ce.Secs
				if ce.Status == "unsat" {
					return
				}
			}
			f := filepath.Join(dir, fmt.Sprintf("ob%03d.smt2", i))
			_ = writeFile(f, scr)
			var r SolverResult
			var alls []SolverResult
			if combos := splitCombos(ob.Splits); len(combos) > 1 && !confirm {
				// quick attempt on the whole goal, then one query per combination of
				// incoming edges at the dominating merges (explicit case split)
				r = runSolver(solvers[0], f, 2)
				if r.Status != "unsat" && r.Status != "sat" {
					t0 := time.Now()
					okAll := true
					var mu sync.Mutex
					var swg sync.WaitGroup
					for ci, combo := range combos {
						swg.Add(1)
						go func(ci int, combo []string) {
							defer swg.Done()
							sf := filepath.Join(dir, fmt.Sprintf("ob%03d.split%d.smt2", i, ci))
							_ = writeFile(sf, base+"(assert "+and(combo...)+")\n(assert (not "+ob.Form+"))\n(check-sat)\n")
							sr, _ := solve(sf, timeoutS, false)
							if sr.Status != "unsat" {
								mu.Lock()
								okAll = false
								mu.Unlock()
							} else {
								_ = os.Remove(sf)
							}
						}(ci, combo)
					}
					swg.Wait()
					if okAll {
						r = SolverResult{Status: "unsat", Solver: fmt.Sprintf("split×%d", len(combos)), Secs: time.Since(t0).Seconds()}
					} else {
						r, alls = solve(f, timeoutS, confirm)
					}
				}
			} else {
				r, alls = solve(f, timeoutS, confirm)
			}
			ob.Status, ob.Solver, ob.Secs, ob.Output = r.Status, r.Solver, r.Secs, r.Output
			if confirm && r.Status == "unsat" {
				n := 0
				for _, a := range alls {
					if a.Status == "unsat" {
						n++
					}
					if a.Status == "sat" {
						ob.Status = "solver-disagreement"
					}
				}
				ob.Solver = fmt.Sprintf("%s (+%d confirming)", r.Solver, n-1)
			}
			if ob.Status != "unsat" && ob.Status != "sat" {
				// model finding: without the quantified axioms and assumptions the
				// solvers can answer sat; such a model is only a candidate
				// counterexample (it may violate an axiom) and must replay on the
				// real code to count.
				lf := filepath.Join(dir, fmt.Sprintf("ob%03d.lite.smt2", i))
				_ = writeFile(lf, liteScript(g)+"(assert (not "+ob.Form+"))\n(check-sat)\n(get-model)\n")
				lr := runSolver(solvers[0], lf, 5)
				if lr.Status == "sat" {
					ob.Status = "sat-lite"
					ob.Output = lr.Output
				}
			} else if ob.Status == "sat" {
				_ = writeFile(f, scr+"(get-model)\n")
				mr := runSolver(solvers[0], f, timeoutS)
				ob.Output = mr.Output
			}
			cachePut(h, cacheEntry{ob.Status, r.Solver, r.Secs})
		}(i, ob)
	}
	wg.Wait()
}

func (P *Program) batchGoals(goals []*Obligation, base, dir string) {
	var todo []*Obligation
	hashes := map[*Obligation]string{}
	for _, ob := range goals {
		h := hashStr(base + "(assert (not " + ob.Form + "))\n(check-sat)\n")
		hashes[ob] = h
		if ce, ok := cacheGet(h); ok {
			if ce.Status == "unsat" {
				ob.Status, ob.Solver, ob.Secs = ce.Status, ce.Solver+" (cached)", ce.Secs
			}
			continue
		}
		todo = append(todo, ob)
	}
	if len(todo) < 4 {
		return
	}
	const perCheckMs = 2500
	nb := (len(todo) + 39) / 40
	if nb > 12 {
		nb = 12
	}
	var wg sync.WaitGroup
	for b := 0; b < nb; b++ {
		var chunk []*Obligation
		for i := b; i < len(todo); i += nb {
			chunk = append(chunk, todo[i])
		}
		wg.Add(1)
		go func(b int, chunk []*Obligation) {
			defer wg.Done()
			var sb strings.Builder
			sb.WriteString(strings.Replace(base, "(set-logic ALL)", fmt.Sprintf("(set-logic ALL)\n(set-option :timeout %d)", perCheckMs), 1))
			for i, ob := range chunk {
				sb.WriteString(fmt.Sprintf("(declare-const goal!%d Bool)\n(assert (= goal!%d %s))\n", i, i, ob.Form))
			}
			for i := range chunk {
				sb.WriteString(fmt.Sprintf("(check-sat-assuming ((not goal!%d)))\n", i))
			}
			f := filepath.Join(dir, fmt.Sprintf("batch%02d.smt2", b))
			_ = writeFile(f, sb.String())
			t0 := time.Now()
			r := runSolver(solvers[0], f, len(chunk)*perCheckMs/1000+30)
			secs := time.Since(t0).Seconds()
			if strings.Contains(r.Output, "(error") {
				return
			}
			var ans []string
			for _, l := range strings.Fields(r.Output) {
				if l == "sat" || l == "unsat" || l == "unknown" {
					ans = append(ans, l)
				}
			}
			n := 0
			for i, a := range ans {
				if i < len(chunk) && a == "unsat" {
					n++
				}
			}
			for i, a := range ans {
				if i >= len(chunk) || a != "unsat" {
					continue
				}
				ob := chunk[i]
				ob.Status, ob.Solver, ob.Secs = "unsat", solvers[0].name+" (batch)", secs/float64(max(n, 1))
				cachePut(hashes[ob], cacheEntry{"unsat", ob.Solver, ob.Secs})
			}
			_ = os.Remove(f)
		}(b, chunk)
	}
	wg.Wait()
}

// splitCombos: all combinations of one incoming edge per merge, for the last
// three merges at most (8 combinations).
func splitCombos(splits [][]string) [][]string {
	if len(splits) == 0 {
		return nil
	}
	if len(splits) > 3 {
		splits = splits[len(splits)-3:]
	}
	out := [][]string{{}}
	for _, m := range splits {
		var next [][]string
		for _, c := range out {
			for _, e := range m {
				next = append(next, append(append([]string{}, c...), e))
			}
		}
		out = next
		if len(out) > 16 {
			return nil
		}
	}
	return out
}

// smoke is the vacuity guard: every basic block and every return must be
// reachable under all assumptions made so far (contract preconditions, callee
// postconditions, loop invariants, axioms), except for the number of dead
// points the contract declares (`deadpoints N`: code that is really dead,
// e.g. the error branch after a call whose contract excludes the error).
// A contradiction among assumptions shows up as extra dead points.
func (P *Program) smoke(g *Gen, base, dir string) {
	if len(g.smokePts) == 0 {
		return
	}
	var b strings.Builder
	b.WriteString(base)
	// one literal per point and check-sat-assuming: no push/pop, because a solver
	// time limit that fires inside `push` leaves the assertion on the base level
	// and makes every later answer wrong (seen on a loaded machine: "push canceled")
	for i, p := range g.smokePts {
		b.WriteString(fmt.Sprintf("(declare-const smk!%d Bool)\n(assert (= smk!%d %s))\n", i, i, p.reach))
	}
	for i := range g.smokePts {
		b.WriteString(fmt.Sprintf("(check-sat-assuming (smk!%d))\n", i))
	}
	scr := b.String()
	h := hashStr("smoke\n" + scr)
	ob := &Obligation{Name: g.key + "/cover/reachability#0", Kind: "cover", Pos: g.P.fset.Position(g.fn.Pos()),
		Desc: "no assumption contradicts the others: dead points match the contract's `deadpoints`"}
	g.obls = append(g.obls, ob)
	want := 0
	if g.ct != nil {
		want = g.ct.DeadPoints
	}
	var out string
	if ce, ok := cacheGet(h); ok {
		out = ce.Solver
	} else {
		f := filepath.Join(dir, "smoke.smt2")
		_ = writeFile(f, strings.Replace(scr, "(set-logic ALL)", "(set-logic ALL)\n(set-option :timeout 600)", 1))
		r := runSolver(solvers[1], f, 120)
		out = r.Output
		cachePut(h, cacheEntry{"smoke", out, r.Secs})
	}
	var dead []string
	lines := strings.Fields(out)
	k := 0
	undecided := 0
	for _, l := range lines {
		if l != "sat" && l != "unsat" && l != "unknown" {
			continue
		}
		if k < len(g.smokePts) && l == "unsat" {
			dead = append(dead, g.smokePts[k].name)
		}
		if l == "unknown" {
			undecided++
		}
		k++
	}
	if k != len(g.smokePts) || strings.Contains(out, "(error") {
		ob.Status = "cover-unknown"
		ob.Output = fmt.Sprintf("smoke run answered %d of %d points\n%s", k, len(g.smokePts), truncate(out, 2000))
		return
	}
	if dead == nil {
		dead = []string{}
	}
	ob.Dead = dead
	ob.Undecided = undecided
	ob.Output = fmt.Sprintf("dead points (%d, contract declares %d, %d undecided within the per-point time limit): %v", len(dead), want, undecided, dead)
	// points the solver could not decide in time may be dead or live: the count is
	// wrong only if it is wrong whichever way they fall
	if len(dead) > want || len(dead)+undecided < want {
		ob.Status = "vacuous"
	} else {
		ob.Status = "covered"
	}
}

func (P *Program) verify(key string, tier string, timeoutS int) *FuncResult {
	t0 := time.Now()
	ct := P.cs.ByKey[key]
	res := &FuncResult{Key: key}
	if ct != nil {
		res.Props = ct.Props
	}
	fn := P.byKey[key]
	if fn == nil {
		if P.isInterfaceMethod(key) || strings.Contains(key, "dyn:") {
			// specification of an interface method: used at dynamic calls, nothing to verify here
			res.Trusted = true
			return res
		}
		res.Unsup = "no such function in /repo (contract is stale)"
		return res
	}
	if ct != nil && ct.Trusted {
		res.Trusted = true
		return res
	}
	if len(fn.Blocks) == 0 {
		res.Unsup = "function has no body"
		return res
	}
	// Path variants: a function with at most three control-flow merges (outside
	// loop heads) is verified once per combination of incoming edges, each run
	// treating the other incoming edges as not taken. No heap merge is needed
	// then; an obligation is discharged when it is discharged in every variant.
	variants := pathVariants(fn)
	var gens []*Gen
	for vi, dead := range variants {
		g, unsup := P.generate(fn, ct, tier, dead)
		if vi == 0 {
			res.Unsup = unsup
			res.Abstract = g.unsup
			res.Assumed = g.assumed
			for c := range g.callees {
				res.Callees = append(res.Callees, c)
			}
			sort.Strings(res.Callees)
		}
		if unsup != "" {
			res.Unsup = unsup
			res.Secs = time.Since(t0).Seconds()
			return res
		}
		g.variant = vi
		gens = append(gens, g)
	}
	var wg sync.WaitGroup
	for _, g := range gens {
		wg.Add(1)
		go func(g *Gen) {
			defer wg.Done()
			P.discharge(g, timeoutS, tier == "thorough")
		}(g)
	}
	wg.Wait()
	// combine
	first := gens[0]
	byName := map[string]*Obligation{}
	for _, ob := range first.obls {
		ob.Prop = ct.Props
		byName[ob.Name] = ob
	}
	for _, g := range gens[1:] {
		for _, ob := range g.obls {
			m, ok := byName[ob.Name]
			if !ok {
				ob.Prop = ct.Props
				ob.Status = "variant-mismatch"
				first.obls = append(first.obls, ob)
				continue
			}
			switch m.Kind {
			case "cover":
				if ob.Dead != nil || m.Dead != nil {
					// a point is dead only if it is dead in every variant
					keep := []string{}
					for _, d := range m.Dead {
						for _, d2 := range ob.Dead {
							if d == d2 {
								keep = append(keep, d)
							}
						}
					}
					m.Dead = keep
					if ob.Undecided > m.Undecided {
						m.Undecided = ob.Undecided
					}
				} else if ob.Status == "covered" {
					m.Status = "covered"
				}
			default:
				m.Secs += ob.Secs
				if m.Status == "unsat" && ob.Status != "unsat" {
					m.Status, m.Solver, m.Output = ob.Status, ob.Solver, ob.Output
				}
			}
		}
	}
	for _, ob := range first.obls {
		if ob.Kind == "cover" && ob.Dead != nil && ob.Status != "cover-unknown" {
			ob.Output = fmt.Sprintf("dead points (%d, contract declares %d, %d undecided within the per-point time limit): %v", len(ob.Dead), ct.DeadPoints, ob.Undecided, ob.Dead)
			if len(ob.Dead) > ct.DeadPoints || len(ob.Dead)+ob.Undecided < ct.DeadPoints {
				ob.Status = "vacuous"
			} else {
				ob.Status = "covered"
			}
		}
		if len(gens) > 1 && ob.Kind != "cover" && ob.Status == "unsat" {
			ob.Solver += fmt.Sprintf(" (paths×%d)", len(gens))
		}
	}
	res.Obls = first.obls
	res.G = first
	res.Lines = len(first.lines)
	res.Secs = time.Since(t0).Seconds()
	return res
}

// pathVariants enumerates, for up to three merge blocks, the sets of CFG
// edges to treat as not taken (one incoming edge kept per merge block).
func pathVariants(fn *ssa.Function) []map[[2]int]bool {
	var merges []*ssa.BasicBlock
	for _, b := range fn.Blocks {
		if len(b.Preds) < 2 {
			continue
		}
		back := false
		for _, p := range b.Preds {
			if isBackEdge(p, b) {
				back = true
			}
		}
		if !back && len(b.Succs) > 0 {
			// merges that end the function (shared error returns) need no variant
			merges = append(merges, b)
		}
	}
	out := []map[[2]int]bool{{}}
	if len(merges) == 0 || len(merges) > 3 {
		return out
	}
	for _, m := range merges {
		var next []map[[2]int]bool
		for _, cur := range out {
			for keep := range m.Preds {
				nm := map[[2]int]bool{}
				for k, v := range cur {
					nm[k] = v
				}
				for j, p := range m.Preds {
					if j != keep {
						nm[[2]int{p.Index, m.Index}] = true
					}
				}
				next = append(next, nm)
			}
		}
		out = next
		if len(out) > 12 {
			return []map[[2]int]bool{{}}
		}
	}
	return out
}

func main() {
	if len(os.Args) < 2 {
		fmt.Fprintln(os.Stderr, "usage: tsvc check|func|loops|list ...")
		os.Exit(2)
	}
	cmd := os.Args[1]
	fl := flag.NewFlagSet(cmd, flag.ExitOnError)
	repo := fl.String("repo", "/repo", "repository")
	verif := fl.String("verif", "/verif", "verif dir")
	prop := fl.String("prop", "", "property id")
	tier := fl.String("tier", "quick", "quick|thorough")
	key := fl.String("key", "", "function key (substring match for func/loops)")
	dump := fl.Bool("dump", false, "keep and print script path")
	nocache := fl.Bool("nocache", false, "ignore solver cache")
	timeout := fl.Int("timeout", 0, "per-obligation timeout (s)")
	verbose := fl.Bool("v", false, "verbose")
	_ = fl.Parse(os.Args[2:])
	if *nocache {
		useCache = false
	}
	workDir = filepath.Join(*verif, ".work", fmt.Sprint(os.Getpid())) // per process: concurrent checks must not share solver input files
	cleanup := func() {
		if !*dump {
			_ = os.RemoveAll(workDir)
		}
	}
	cacheDir = filepath.Join(*verif, ".cache")
	if *timeout == 0 {
		*timeout = 90
		if *tier == "thorough" {
			*timeout = 240
		}
	}
	t0 := time.Now()
	P, err := loadProgram(*repo, *verif)
	if err != nil {
		fmt.Fprintln(os.Stderr, "load failed:", err)
		os.Exit(2)
	}
	if err := P.loadContracts(); err != nil {
		fmt.Fprintln(os.Stderr, "contracts:", err)
		os.Exit(2)
	}
	loadSecs := time.Since(t0).Seconds()
	switch cmd {
	case "list":
		var ks []string
		for k, c := range P.cs.ByKey {
			if !c.NoBody {
				ks = append(ks, k)
			}
		}
		sort.Strings(ks)
		for _, k := range ks {
			fmt.Println(k, P.cs.ByKey[k].Props)
		}
	case "loops":
		for k, fn := range P.byKey {
			if !strings.Contains(k, *key) || len(fn.Blocks) == 0 {
				continue
			}
			for i, h := range loopHeads(fn) {
				var phis []string
				for _, in := range h.Instrs {
					if p, ok := in.(*ssa.Phi); ok {
						phis = append(phis, p.Comment)
					}
				}
				fmt.Printf("%s loop %d at %s head=block%d (%s) vars=%v\n", k, i, P.fset.Position(loopPos(h)), h.Index, h.Comment, phis)
			}
		}
	case "func":
		var ks []string
		for k, c := range P.cs.ByKey {
			if !c.NoBody && strings.Contains(k, *key) {
				ks = append(ks, k)
			}
		}
		sort.Strings(ks)
		bad := 0
		for _, k := range ks {
			r := P.verify(k, *tier, *timeout)
			bad += printFuncResult(r, *verbose)
			if *dump {
				for _, ob := range r.Obls {
					if ob.Kind != "cover" && ob.Status != "unsat" {
						path := filepath.Join(workDir, "replay-"+safeName(ob.Name)+".txt")
						fmt.Printf("replay %s -> %s (%s)\n", ob.Name, P.replay(r, ob, path), path)
					}
				}
			}
		}
		_ = dump
		fmt.Printf("load %.1fs total %.1fs\n", loadSecs, time.Since(t0).Seconds())
		cleanup()
		if bad > 0 {
			os.Exit(1)
		}
	case "check":
		rc := P.checkProperty(*prop, *tier, *timeout, loadSecs, t0)
		cleanup()
		os.Exit(rc)
	default:
		fmt.Fprintln(os.Stderr, "unknown command", cmd)
		os.Exit(2)
	}
}

func printFuncResult(r *FuncResult, verbose bool) int {
	bad := 0
	if r.Trusted {
		fmt.Printf("== %s TRUSTED (not verified)\n", r.Key)
		return 0
	}
	if r.Unsup != "" {
		fmt.Printf("== %s OUTSIDE SUBSET: %s\n", r.Key, r.Unsup)
		return 1
	}
	n, ok := 0, 0
	for _, ob := range r.Obls {
		if ob.Kind == "cover" {
			if ob.Status == "vacuous" {
				bad++
				fmt.Printf("   VACUOUS %s %s\n", ob.Name, ob.Output)
			} else if verbose {
				fmt.Printf("   cover %s %s %s\n", ob.Name, ob.Status, ob.Output)
			}
			continue
		}
		n++
		if ob.Status == "unsat" {
			ok++
			if verbose {
				fmt.Printf("   ok   %-70s %s %.2fs\n", ob.Name, ob.Solver, ob.Secs)
			}
		} else {
			bad++
			fmt.Printf("   FAIL %-70s %s [%s %.2fs] %s: %s\n", ob.Name, ob.Status, ob.Solver, ob.Secs, ob.Pos, ob.Desc)
		}
	}
	fmt.Printf("== %s: %d/%d discharged, %.1fs, %d script lines; abstracted=%v\n", r.Key, ok, n, r.Secs, r.Lines, r.Abstract)
	return bad
}

