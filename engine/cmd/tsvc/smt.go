package main

import (
	"runtime"
	"bytes"
	"context"
	"fmt"
	"os"
	"os/exec"
	"path/filepath"
	"strings"
	"sync"
	"time"
)

// SMT helpers: terms are strings.

func q(name string) string {
	// quoted symbol
	name = strings.ReplaceAll(name, "|", "!")
	name = strings.ReplaceAll(name, "\\", "!")
	return "|" + name + "|"
}

func sx(op string, args ...string) string {
	return "(" + op + " " + strings.Join(args, " ") + ")"
}

func and(args ...string) string {
	var a []string
	for _, x := range args {
		if x == "true" || x == "" {
			continue
		}
		if x == "false" {
			return "false"
		}
		a = append(a, x)
	}
	if len(a) == 0 {
		return "true"
	}
	if len(a) == 1 {
		return a[0]
	}
	return sx("and", a...)
}

func or(args ...string) string {
	var a []string
	for _, x := range args {
		if x == "false" || x == "" {
			continue
		}
		if x == "true" {
			return "true"
		}
		a = append(a, x)
	}
	if len(a) == 0 {
		return "false"
	}
	if len(a) == 1 {
		return a[0]
	}
	return sx("or", a...)
}

func not(x string) string {
	if x == "true" {
		return "false"
	}
	if x == "false" {
		return "true"
	}
	return sx("not", x)
}

func implies(a, b string) string {
	if a == "true" {
		return b
	}
	if b == "true" {
		return "true"
	}
	return sx("=>", a, b)
}

func intLit(s string) string {
	if strings.HasPrefix(s, "-") {
		return "(- " + s[1:] + ")"
	}
	return s
}

const smtPreamble = `(set-option :produce-models true)
(set-logic ALL)
(declare-datatypes ((Slice 0)) (((mk-slice (s-arr Int) (s-off Int) (s-len Int) (s-cap Int)))))
(declare-datatypes ((Iface 0)) (((mk-iface (i-typ Int) (i-val Int)))))
`

// ---------- solver invocation ----------

type SolverResult struct {
	Status string // unsat | sat | unknown | timeout | error
	Solver string
	Secs   float64
	Output string
}

type solverSpec struct {
	name string
	args func(file string, timeoutS int) []string
}

var solvers = []solverSpec{
	{"z3-new", func(f string, t int) []string { return []string{"z3-new", fmt.Sprintf("-T:%d", t), f} }},
	{"z3", func(f string, t int) []string { return []string{"z3", fmt.Sprintf("-T:%d", t), f} }},
	{"cvc5", func(f string, t int) []string {
		return []string{"cvc5", "--incremental", fmt.Sprintf("--tlimit=%d", t*1000), f}
	}},
}

var solverSem = make(chan struct{}, 14)

func runSolver(sp solverSpec, file string, timeoutS int) SolverResult {
	return runSolverCtx(context.Background(), sp, file, timeoutS)
}

func runSolverCtx(parent context.Context, sp solverSpec, file string, timeoutS int) SolverResult {
	solverSem <- struct{}{}
	defer func() { <-solverSem }()
	if parent.Err() != nil {
		return SolverResult{Status: "cancelled", Solver: sp.name}
	}
	// wall-clock limits are stretched when the machine is oversubscribed (a solver
	// that shares its core with three other processes gets a quarter of the time):
	// factor = 1-minute load average / cores, between 1 and 6
	timeoutS = int(float64(timeoutS)*loadFactor() + 0.5)
	args := sp.args(file, timeoutS)
	ctx, cancel := context.WithTimeout(parent, time.Duration(timeoutS+5)*time.Second)
	defer cancel()
	cmd := exec.CommandContext(ctx, args[0], args[1:]...)
	var out bytes.Buffer
	cmd.Stdout = &out
	cmd.Stderr = &out
	t0 := time.Now()
	_ = cmd.Run()
	secs := time.Since(t0).Seconds()
	o := out.String()
	first := ""
	for _, ln := range strings.Split(o, "\n") {
		ln = strings.TrimSpace(ln)
		if ln == "" || strings.HasPrefix(ln, "WARNING") {
			continue
		}
		first = ln
		break
	}
	st := "error"
	switch {
	case first == "unsat":
		st = "unsat"
	case first == "sat":
		st = "sat"
	case first == "unknown":
		st = "unknown"
	case strings.Contains(first, "timeout") || ctx.Err() != nil:
		st = "timeout"
	case strings.Contains(o, "interrupted by timeout"):
		st = "timeout"
	}
	return SolverResult{Status: st, Solver: sp.name, Secs: secs, Output: o}
}

var loadMu sync.Mutex
var loadAt time.Time
var loadF = 1.0

func loadFactor() float64 {
	loadMu.Lock()
	defer loadMu.Unlock()
	if time.Since(loadAt) < 5*time.Second {
		return loadF
	}
	loadAt = time.Now()
	loadF = 1.0
	if b, err := os.ReadFile("/proc/loadavg"); err == nil {
		var l1 float64
		if _, err := fmt.Sscan(string(b), &l1); err == nil {
			// our own solvers (up to 14) are part of the load: only the excess counts
			f := (l1 - 14) / float64(runtime.NumCPU())
			if f > 1 {
				loadF = f
			}
			if loadF > 6 {
				loadF = 6
			}
		}
	}
	return loadF
}

// solve races the solvers: z3-new first (decides most goals in well under a
// second); if it does not answer, z3 4.8 and cvc5 run in parallel.
func solve(file string, timeoutS int, want2 bool) (SolverResult, []SolverResult) {
	var all []SolverResult
	quickT := timeoutS
	if quickT > 2 {
		quickT = 2
	}
	r := runSolver(solvers[0], file, quickT)
	all = append(all, r)
	if (r.Status == "unsat" || r.Status == "sat") && !want2 {
		return r, all
	}
	var wg sync.WaitGroup
	res := make([]SolverResult, 3)
	ctx, cancel := context.WithCancel(context.Background())
	defer cancel()
	for i := 0; i < 3; i++ {
		if i == 0 && (r.Status == "unsat" || r.Status == "sat" || timeoutS <= quickT) {
			continue
		}
		wg.Add(1)
		go func(i int) {
			defer wg.Done()
			res[i] = runSolverCtx(ctx, solvers[i], file, timeoutS)
			if (res[i].Status == "unsat" || res[i].Status == "sat") && !want2 {
				cancel() // first decisive answer wins; stop the others
			}
		}(i)
	}
	wg.Wait()
	best := r
	for i := 0; i < 3; i++ {
		if res[i].Solver == "" {
			continue
		}
		all = append(all, res[i])
		if best.Status != "unsat" && best.Status != "sat" && (res[i].Status == "unsat" || res[i].Status == "sat") {
			best = res[i]
		}
	}
	return best, all
}

func writeFile(path, content string) error {
	if err := os.MkdirAll(filepath.Dir(path), 0o755); err != nil {
		return err
	}
	return os.WriteFile(path, []byte(content), 0o644)
}
