package main

import (
	"os"
	"fmt"
	"go/constant"
	"go/token"
	"go/types"
	"sort"
	"strconv"
	"strings"

	"golang.org/x/tools/go/ssa"
)

// ---------- environments for contract expressions ----------

type envVar struct {
	v     Val
	deref bool // v is the address of a cell; the variable's value is its content
}

type Env struct {
	g     *Gen
	vars  map[string]envVar
	st    *State
	old   *State
	pkg   *types.Package
	res   []Val
	bound map[string]bool
	depth int
	// sample(k): ghost value of the k-th random draw made by the function the
	// expression talks about (its own recorded draws, or fresh constants when
	// the expression is a callee's postcondition)
	sample func(k int) string
	// entry bindings of the parameters (loop environments only): inside old(..)
	// a parameter name means its value on entry, even if the loop reassigns it
	entryVars map[string]envVar
	// the expression belongs to a library contract applied at a call site
	// (static(x) is only meaningful there)
	libCallee bool
}

type specErr struct{ msg string }

func (e *Env) fail(format string, a ...interface{}) {
	panic(specErr{fmt.Sprintf(format, a...)})
}

func (e *Env) with(st *State) *Env {
	n := *e
	n.st = st
	return &n
}

// funcEnv: environment of the function under verification (params, free
// variables, named results).
func (g *Gen) funcEnv(st, old *State, res []Val) *Env {
	env := &Env{g: g, vars: map[string]envVar{}, st: st, old: old, pkg: g.fn.Pkg.Pkg, bound: map[string]bool{}, res: res}
	env.sample = func(k int) string {
		if k >= len(g.samples) {
			panic(specErr{fmt.Sprintf("sample(%d): the function makes only %d recorded draws before this point", k, len(g.samples))})
		}
		return g.samples[k]
	}
	for i, p := range g.fn.Params {
		env.vars[p.Name()] = envVar{v: g.vals[p]}
		if i == 0 && g.fn.Signature.Recv() != nil {
			env.vars["self"] = envVar{v: g.vals[p]}
		}
	}
	for _, fv := range g.fn.FreeVars {
		env.vars[fv.Name()] = envVar{v: g.vals[fv], deref: true}
	}
	for n, v := range g.ghostLets {
		env.vars["$"+n] = envVar{v: v}
	}
	if res != nil {
		rs := g.fn.Signature.Results()
		for i := 0; i < rs.Len() && i < len(res); i++ {
			if n := rs.At(i).Name(); n != "" && n != "_" {
				if _, clash := env.vars[n]; !clash {
					env.vars[n] = envVar{v: res[i]}
				}
			}
		}
	}
	return env
}

// loopEnv: environment at a loop head. from == nil: generic iteration (phis as
// havocked); otherwise phis take their value along the edge from `from`.
func (g *Gen) loopEnv(h *ssa.BasicBlock, from *ssa.BasicBlock, st *State) *Env {
	env := g.funcEnv(st, g.entry, nil)
	env.entryVars = map[string]envVar{}
	for n, v := range env.vars {
		env.entryVars[n] = v
	}
	// variables in scope by source name
	names, addrs := g.varsAt(h)
	for n, v := range names {
		env.vars[n] = envVar{v: v}
	}
	for n, v := range addrs {
		// address-taken variable: its value is whatever the cell holds now
		env.vars[n] = envVar{v: v, deref: true}
	}
	for _, in := range h.Instrs {
		phi, ok := in.(*ssa.Phi)
		if !ok {
			continue
		}
		var v Val
		if from == nil {
			v = g.vals[phi]
		} else {
			v = g.val(phi.Edges[predIndex(h, from)])
		}
		name := phi.Comment
		if name == "rangeindex" {
			// the key variable counts completed iterations: phi + 1
			kn := g.rangeKeyName(phi)
			v1 := Val{T: sx("+", v.T, "1"), S: "Int", G: phi.Type()}
			env.vars["$iter"] = envVar{v: v1}
			if kn != "" {
				env.vars[kn] = envVar{v: v1}
			}
			continue
		}
		if name != "" {
			env.vars[name] = envVar{v: v}
		}
	}
	return env
}

// rangeKeyName finds the source name of the key variable of a range loop.
func (g *Gen) rangeKeyName(phi *ssa.Phi) string {
	for _, b := range g.fn.Blocks {
		for _, in := range b.Instrs {
			d, ok := in.(*ssa.DebugRef)
			if !ok || d.IsAddr {
				continue
			}
			if bo, ok := d.X.(*ssa.BinOp); ok && bo.Op == token.ADD && bo.X == ssa.Value(phi) {
				if id, ok := d.Expr.(interface{ String() string }); ok {
					return id.String()
				}
			}
		}
	}
	return ""
}

// varsAt resolves source variable names to the SSA values that hold them at
// the head of a loop (definitions that dominate the head).
func (g *Gen) varsAt(h *ssa.BasicBlock) (map[string]Val, map[string]Val) {
	type cand struct {
		v   ssa.Value
		blk *ssa.BasicBlock
		idx int
		add bool
		obj token.Pos
	}
	best := map[string]cand{}
	// escaping locals (captured or address-taken): the Alloc of the variable,
	// keyed by the position of its declaration
	cells := map[token.Pos]*ssa.Alloc{}
	for _, b := range g.fn.Blocks {
		if b != h && !b.Dominates(h) {
			continue
		}
		if b == h {
			continue
		}
		for i, in := range b.Instrs {
			if a, ok := in.(*ssa.Alloc); ok && a.Heap && a.Comment != "" && a.Pos().IsValid() {
				if _, have := g.vals[a]; have {
					cells[a.Pos()] = a
				}
				continue
			}
			if phi, ok := in.(*ssa.Phi); ok && phi.Comment != "" && phi.Comment != "rangeindex" {
				// a phi redefines the variable at the start of its block
				if _, have := g.vals[phi]; have {
					c, have := best[phi.Comment]
					if !have || c.blk.Dominates(b) {
						best[phi.Comment] = cand{phi, b, -1, false, token.NoPos}
					}
				}
				continue
			}
			d, ok := in.(*ssa.DebugRef)
			if !ok {
				continue
			}
			id, ok := d.Expr.(interface{ String() string })
			if !ok {
				continue
			}
			if _, isIdent := d.Expr.(interface{ IsExported() bool }); !isIdent {
				continue
			}
			name := id.String()
			if _, have := g.vals[d.X]; !have {
				if _, isC := d.X.(*ssa.Const); !isC {
					continue
				}
			}
			c, have := best[name]
			if !have || c.blk.Dominates(b) && (c.blk != b || c.idx < i) {
				var op token.Pos
				if o := d.Object(); o != nil {
					op = o.Pos()
				}
				best[name] = cand{d.X, b, i, d.IsAddr, op}
			}
		}
	}
	out := map[string]Val{}
	addrs := map[string]Val{}
	for n, c := range best {
		if c.add {
			// the DebugRef gives the variable's address (an Alloc that escapes):
			// the variable's value is the content of that cell at the time of use
			if a := g.val(c.v); a.Loc == nil && a.T != "" {
				addrs[n] = a
			}
			continue
		}
		// the last reference seen is the value stored at the variable's
		// declaration, but the variable lives in a cell: its value is the cell's
		// content at the time of use
		if a, ok := cells[c.obj]; ok && c.obj.IsValid() && a.Comment == n {
			if av := g.val(a); av.Loc == nil && av.T != "" {
				addrs[n] = av
				continue
			}
		}
		// a load of an address-taken variable is a snapshot that may be stale
		// at the loop head: use the address instead
		if u, ok := c.v.(*ssa.UnOp); ok && u.Op == token.MUL {
			if _, isAlloc := u.X.(*ssa.Alloc); isAlloc {
				if a := g.val(u.X); a.Loc == nil && a.T != "" {
					addrs[n] = a
				}
				continue
			}
		}
		v := g.val(c.v)
		if v.Loc != nil || len(v.Tup) > 0 {
			continue
		}
		out[n] = v
	}
	return out, addrs
}

// ---------- translation ----------

func (e *Env) boolOf(x Expr) string {
	v := e.tr(x)
	if v.S != "Bool" {
		e.fail("expected boolean expression, got %s in %s", v.S, exprString(x))
	}
	return v.T
}

func (e *Env) tryBool(x Expr) (s string, ok bool) {
	defer func() {
		if r := recover(); r != nil {
			if _, is := r.(specErr); is {
				ok = false
				return
			}
			panic(r)
		}
	}()
	return e.boolOf(x), true
}

var nilVal = Val{T: "nil", S: "nil"}

func (e *Env) coerceNil(a, b Val) (Val, Val) {
	if a.S == "nil" && b.S != "nil" {
		a = Val{T: e.g.zeroOfSort(b.S, b.G), S: b.S, G: b.G}
	}
	if b.S == "nil" && a.S != "nil" {
		b = Val{T: e.g.zeroOfSort(a.S, a.G), S: a.S, G: a.G}
	}
	return a, b
}

func (e *Env) tr(x Expr) Val {
	g := e.g
	switch x := x.(type) {
	case *EBool:
		if x.V {
			return Val{T: "true", S: "Bool"}
		}
		return Val{T: "false", S: "Bool"}
	case *EInt:
		if strings.HasPrefix(x.V, "0x") {
			n, _ := strconv.ParseUint(x.V[2:], 16, 64)
			return Val{T: fmt.Sprint(n), S: "Int"}
		}
		return Val{T: x.V, S: "Int"}
	case *EStr:
		return Val{T: g.strConst(x.V), S: "Int", G: types.Typ[types.String]}
	case *EIdent:
		return e.ident(x.Name)
	case *EUnary:
		v := e.tr(x.X)
		switch x.Op {
		case "!":
			if v.S != "Bool" {
				e.fail("! on %s", v.S)
			}
			return Val{T: not(v.T), S: "Bool"}
		case "-":
			return Val{T: sx("-", v.T), S: "Int"}
		}
	case *EBinary:
		return e.binary(x)
	case *EIte:
		c := e.boolOf(x.C)
		a, b := e.coerceNil(e.tr(x.A), e.tr(x.B))
		return Val{T: sx("ite", c, a.T, b.T), S: a.S, G: a.G}
	case *EQuant:
		n := *e
		n.bound = map[string]bool{}
		for k := range e.bound {
			n.bound[k] = true
		}
		var decl, rng []string
		for _, v := range x.Vars {
			n.bound[v] = true
			decl = append(decl, fmt.Sprintf("(%s Int)", q("qv."+v)))
		}
		if x.Lo != nil {
			lo, hi := e.tr(x.Lo), e.tr(x.Hi)
			for _, v := range x.Vars {
				rng = append(rng, sx("<=", lo.T, q("qv."+v)), sx("<", q("qv."+v), hi.T))
			}
		}
		body := n.boolOf(x.Body)
		if x.Forall {
			inner := implies(and(rng...), body)
			if len(x.Vars) == 1 {
				// triggers: every element address idx(off, k) with the bare bound
				// variable (alternatives); keeps instantiation arithmetic-free
				if pats := idxPatterns(inner, q("qv."+x.Vars[0])); len(pats) > 0 {
					var ps []string
					for _, p := range pats {
						ps = append(ps, ":pattern ("+p+")")
					}
					inner = "(! " + inner + " " + strings.Join(ps, " ") + ")"
				}
			}
			return Val{T: fmt.Sprintf("(forall (%s) %s)", strings.Join(decl, " "), inner), S: "Bool"}
		}
		inner := and(append(rng, body)...)
		// trigger for the witness search (the negated goal is a forall): for each
		// bound variable one application of a spec function that has the bare
		// variable as an argument
		var pts []string
		for _, v := range x.Vars {
			if t := appWithBareVar(inner, q("qv."+v), g.P.specFuns); t != "" {
				pts = append(pts, t)
			}
		}
		if len(pts) == len(x.Vars) && len(pts) > 0 {
			inner = "(! " + inner + " :pattern (" + strings.Join(pts, " ") + "))"
		}
		return Val{T: fmt.Sprintf("(exists (%s) %s)", strings.Join(decl, " "), inner), S: "Bool"}
	case *ESel:
		// package-qualified name
		if id, ok := x.X.(*EIdent); ok {
			if _, isVar := e.lookupVar(id.Name); !isVar && !e.bound[id.Name] {
				if p := g.P.pkgByName(id.Name); p != nil {
					return e.pkgMember(p, x.Name)
				}
			}
		}
		v := e.tr(x.X)
		return e.sel(v, x.Name)
	case *EIndex:
		v := e.tr(x.X)
		i := e.tr(x.I)
		return e.index(v, i)
	case *ESlice:
		v := e.tr(x.X)
		if v.S != "Slice" {
			e.fail("slice expression on %s", v.S)
		}
		lo, hi := "0", sx("s-len", v.T)
		if x.Lo != nil {
			lo = e.tr(x.Lo).T
		}
		if x.Hi != nil {
			hi = e.tr(x.Hi).T
		}
		return Val{T: sx("mk-slice", sx("s-arr", v.T), sx("+", sx("s-off", v.T), lo), sx("-", hi, lo), sx("-", sx("s-cap", v.T), lo)), S: "Slice", G: v.G}
	case *ECall:
		return e.call(x)
	}
	e.fail("cannot translate %s", exprString(x))
	return Val{}
}

func (e *Env) lookupVar(name string) (envVar, bool) {
	v, ok := e.vars[name]
	return v, ok
}

func (e *Env) ident(name string) Val {
	g := e.g
	if e.bound[name] {
		return Val{T: q("qv." + name), S: "Int"}
	}
	if name == "nil" {
		return nilVal
	}
	if ev, ok := e.vars[name]; ok {
		if ev.deref {
			pt := ev.v.G.Underlying().(*types.Pointer).Elem()
			return e.derefPtr(ev.v, pt)
		}
		return ev.v
	}
	if strings.HasPrefix(name, "result") {
		k := 0
		if len(name) > 6 {
			n, err := strconv.Atoi(name[6:])
			if err != nil {
				e.fail("unknown identifier %s", name)
			}
			k = n
		}
		if k < len(e.res) {
			return e.res[k]
		}
		e.fail("%s: no such result", name)
	}
	if m, ok := g.P.cs.Macros[name]; ok && len(m.Params) == 0 {
		return e.tr(m.Body)
	}
	if e.pkg != nil {
		if o := e.pkg.Scope().Lookup(name); o != nil {
			return e.pkgObj(o)
		}
	}
	if f, ok := g.P.specFuns[name]; ok && len(f.args) == 0 {
		return Val{T: name, S: f.res}
	}
	e.fail("unknown identifier %s", name)
	return Val{}
}

func (e *Env) derefPtr(p Val, pt types.Type) Val {
	g := e.g
	switch u := pt.Underlying().(type) {
	case *types.Struct:
		return Val{T: g.loadStruct(e.st, pt, p.T), S: g.sortOf(pt), G: pt}
	case *types.Array:
		hn := elemHeapName(u.Elem())
		hs := "(Array Int (Array Int " + g.sortOf(u.Elem()) + "))"
		return Val{T: sx("select", g.heap(e.st, hn, hs), p.T), S: g.sortOf(pt), G: pt}
	}
	return g.loadLoc(e.st, g.cellLoc(p, pt))
}

func (e *Env) pkgMember(p *types.Package, name string) Val {
	o := p.Scope().Lookup(name)
	if o == nil {
		e.fail("package %s has no member %s", p.Path(), name)
	}
	return e.pkgObj(o)
}

func (e *Env) pkgObj(o types.Object) Val {
	g := e.g
	switch o := o.(type) {
	case *types.Const:
		switch o.Val().Kind() {
		case constant.Int:
			return Val{T: intLit(o.Val().ExactString()), S: "Int", G: o.Type()}
		case constant.Bool:
			if constant.BoolVal(o.Val()) {
				return Val{T: "true", S: "Bool"}
			}
			return Val{T: "false", S: "Bool"}
		case constant.String:
			return Val{T: g.strConst(constant.StringVal(o.Val())), S: "Int", G: o.Type()}
		}
	case *types.Var:
		if gl := g.P.globalOf(o); gl != nil {
			ref := Val{T: fmt.Sprint(g.P.globalRef(gl) * refStride), S: "Int", G: gl.Type()}
			return e.derefPtr(ref, o.Type())
		}
	}
	e.fail("cannot use package member %s", o.Name())
	return Val{}
}

// findFieldPath finds a (possibly promoted) field by name.
func findFieldPath(t types.Type, name string) ([]int, bool) {
	type item struct {
		t    types.Type
		path []int
	}
	queue := []item{{t, nil}}
	seen := map[types.Type]bool{}
	for len(queue) > 0 {
		it := queue[0]
		queue = queue[1:]
		tt := it.t
		if p, ok := tt.Underlying().(*types.Pointer); ok {
			tt = p.Elem()
		}
		st, ok := tt.Underlying().(*types.Struct)
		if !ok || seen[tt] {
			continue
		}
		seen[tt] = true
		for i := 0; i < st.NumFields(); i++ {
			if st.Field(i).Name() == name {
				return append(append([]int{}, it.path...), i), true
			}
		}
		for i := 0; i < st.NumFields(); i++ {
			if st.Field(i).Embedded() {
				queue = append(queue, item{st.Field(i).Type(), append(append([]int{}, it.path...), i)})
			}
		}
	}
	return nil, false
}

func (e *Env) sel(v Val, name string) Val {
	g := e.g
	if v.G == nil {
		e.fail("field %s of untyped value", name)
	}
	path, ok := findFieldPath(v.G, name)
	if !ok {
		e.fail("type %s has no field %s", v.G, name)
	}
	cur := v
	for _, idx := range path {
		switch u := cur.G.Underlying().(type) {
		case *types.Pointer:
			st := u.Elem()
			loc, sub := g.fieldLoc(st, idx, cur.T)
			if loc != nil {
				cur = g.loadLoc(e.st, loc)
			} else {
				cur = sub
			}
		case *types.Struct:
			f := u.Field(idx)
			g.sortOf(cur.G)
			cur = Val{T: sx(q("S."+typeKey(cur.G)+"."+f.Name()), cur.T), S: g.sortOf(f.Type()), G: f.Type()}
		default:
			e.fail("cannot select field of %s", cur.G)
		}
	}
	return cur
}

func (e *Env) index(v, i Val) Val {
	g := e.g
	switch {
	case v.S == "Slice":
		var et types.Type
		if v.G != nil {
			if s, ok := v.G.Underlying().(*types.Slice); ok {
				et = s.Elem()
			}
		}
		if et == nil {
			e.fail("index of slice with unknown element type")
		}
		if _, isStruct := et.Underlying().(*types.Struct); isStruct {
			// element of a slice of struct values: the element object (see indexAddr)
			return Val{T: sx("selem", sx("s-arr", v.T), sx("idx", sx("s-off", v.T), i.T)), S: "Int", G: types.NewPointer(et)}
		}
		hn := elemHeapName(et)
		es := g.sortOf(et)
		h := g.heap(e.st, hn, "(Array Int (Array Int "+es+"))")
		g.noteHeapKind(&Loc{Kind: LElem, Heap: hn, G: et})
		return Val{T: sx("select", sx("select", h, sx("s-arr", v.T)), sx("idx", sx("s-off", v.T), i.T)), S: es, G: et}
	case strings.HasPrefix(v.S, "(Array Int "):
		es := strings.TrimSuffix(strings.TrimPrefix(v.S, "(Array Int "), ")")
		var et types.Type
		if v.G != nil {
			if a, ok := v.G.Underlying().(*types.Array); ok {
				et = a.Elem()
			}
		}
		return Val{T: sx("select", v.T, i.T), S: es, G: et}
	case v.G != nil:
		if p, ok := v.G.Underlying().(*types.Pointer); ok {
			if a, ok := p.Elem().Underlying().(*types.Array); ok {
				hn := elemHeapName(a.Elem())
				es := g.sortOf(a.Elem())
				h := g.heap(e.st, hn, "(Array Int (Array Int "+es+"))")
				g.noteHeapKind(&Loc{Kind: LElem, Heap: hn, G: a.Elem()})
				return Val{T: sx("select", sx("select", h, v.T), i.T), S: es, G: a.Elem()}
			}
		}
	}
	e.fail("cannot index %s", v.S)
	return Val{}
}

func (e *Env) binary(x *EBinary) Val {
	switch x.Op {
	case "&&":
		return Val{T: and(e.boolOf(x.L), e.boolOf(x.R)), S: "Bool"}
	case "||":
		return Val{T: or(e.boolOf(x.L), e.boolOf(x.R)), S: "Bool"}
	case "==>":
		return Val{T: implies(e.boolOf(x.L), e.boolOf(x.R)), S: "Bool"}
	case "<==>":
		return Val{T: sx("=", e.boolOf(x.L), e.boolOf(x.R)), S: "Bool"}
	}
	a, b := e.coerceNil(e.tr(x.L), e.tr(x.R))
	switch x.Op {
	case "==", "!=":
		var eq string
		if a.S == "nil" {
			eq = "true"
		} else if a.S != b.S {
			e.fail("comparison of %s and %s in %s", a.S, b.S, exprString(x))
		} else if a.S == "Slice" && (isNilExpr(x.L) || isNilExpr(x.R)) {
			o := a
			if isNilExpr(x.L) {
				o = b
			}
			eq = sx("=", sx("s-arr", o.T), "0")
		} else if a.S == "Iface" && (isNilExpr(x.L) || isNilExpr(x.R)) {
			o := a
			if isNilExpr(x.L) {
				o = b
			}
			eq = sx("=", sx("i-typ", o.T), "0")
		} else {
			eq = sx("=", a.T, b.T)
		}
		if x.Op == "!=" {
			eq = not(eq)
		}
		return Val{T: eq, S: "Bool"}
	case "<", "<=", ">", ">=":
		if a.S != "Int" || b.S != "Int" {
			e.fail("ordering on %s/%s in %s", a.S, b.S, exprString(x))
		}
		return Val{T: sx(x.Op, a.T, b.T), S: "Bool"}
	case "+", "-", "*":
		if a.S != "Int" || b.S != "Int" {
			e.fail("arithmetic on %s/%s in %s", a.S, b.S, exprString(x))
		}
		if x.Op == "*" && !isNumeral(a.T) && !isNumeral(b.T) {
			// symbolic * symbolic: uninterpreted product with a few axioms (prelude)
			// keeps the goals out of nonlinear arithmetic
			return Val{T: sx("imul", a.T, b.T), S: "Int"}
		}
		return Val{T: sx(x.Op, a.T, b.T), S: "Int"}
	case "/":
		return Val{T: sx("div", a.T, b.T), S: "Int"}
	case "%":
		return Val{T: sx("mod", a.T, b.T), S: "Int"}
	}
	e.fail("operator %s", x.Op)
	return Val{}
}

// idxPatterns finds the terms "(idx <off> v)" in an s-expression whose offset
// does not mention the variable v and contains no ite.
func idxPatterns(s, v string) []string {
	seen := map[string]bool{}
	var out []string
	for i := 0; i+5 <= len(s); i++ {
		if !strings.HasPrefix(s[i:], "(idx ") {
			continue
		}
		depth := 0
		j := i
		inBar := false
		for ; j < len(s); j++ {
			c := s[j]
			if c == '|' {
				inBar = !inBar
			}
			if inBar {
				continue
			}
			if c == '(' {
				depth++
			} else if c == ')' {
				depth--
				if depth == 0 {
					break
				}
			}
		}
		if j >= len(s) {
			break
		}
		term := s[i : j+1]
		if !strings.HasSuffix(term, " "+v+")") {
			if strings.Contains(term, v) {
				return nil // compound index over the variable: leave trigger selection to the solver
			}
			continue
		}
		off := term[len("(idx ") : len(term)-len(v)-2]
		if strings.Contains(off, v) || strings.Contains(off, "(ite ") || seen[term] {
			continue
		}
		seen[term] = true
		out = append(out, term)
	}
	return out
}

// appWithBareVar finds a sub-term "(f a1 ... an)" of s where f is a spec
// function, some ai is exactly v, no argument contains an ite, and no other
// quantified variable occurs.
func appWithBareVar(s, v string, funs map[string]specFun) string {
	fallback := ""
	for i := 0; i < len(s); i++ {
		if s[i] != '(' {
			continue
		}
		j := i + 1
		for j < len(s) && s[j] != ' ' && s[j] != ')' {
			j++
		}
		name := s[i+1 : j]
		f, ok := funs[name]
		if !ok || len(f.args) == 0 || name == "imul" || name == "idx" {
			continue
		}
		// find the end of this application
		depth, k, inBar := 0, i, false
		for ; k < len(s); k++ {
			c := s[k]
			if c == '|' {
				inBar = !inBar
			}
			if inBar {
				continue
			}
			if c == '(' {
				depth++
			} else if c == ')' {
				depth--
				if depth == 0 {
					break
				}
			}
		}
		if k >= len(s) {
			return ""
		}
		term := s[i : k+1]
		if strings.Contains(term, "(ite ") {
			continue
		}
		if !(strings.Contains(term, " "+v+" ") || strings.HasSuffix(term, " "+v+")")) {
			continue
		}
		if strings.Count(term, "|qv.") != strings.Count(term, v) {
			continue // mentions another bound variable
		}
		// prefer a candidate without arithmetic inside (robust E-matching)
		if strings.Contains(term, "(+ ") || strings.Contains(term, "(- ") || strings.Contains(term, "(* ") || strings.Contains(term, "(mod ") {
			if fallback == "" {
				fallback = term
			}
			continue
		}
		return term
	}
	return fallback
}

func isNumeral(t string) bool {
	if t == "" {
		return false
	}
	if strings.HasPrefix(t, "(- ") && strings.HasSuffix(t, ")") {
		t = t[3 : len(t)-1]
	}
	for i := 0; i < len(t); i++ {
		if t[i] < '0' || t[i] > '9' {
			return false
		}
	}
	return true
}

func isNilExpr(x Expr) bool {
	id, ok := x.(*EIdent)
	return ok && id.Name == "nil"
}

func (e *Env) call(x *ECall) Val {
	g := e.g
	arg := func(i int) Val {
		if i >= len(x.Args) {
			e.fail("%s: missing argument %d", x.Fn, i)
		}
		return e.tr(x.Args[i])
	}
	switch x.Fn {
	case "old":
		n := e.with(e.old)
		if e.entryVars != nil {
			vars := map[string]envVar{}
			for k, v := range e.vars {
				vars[k] = v
			}
			for k, v := range e.entryVars {
				if !e.bound[k] {
					// captured variables (deref) too: read in the entry state, the cell
					// yields the value the variable had on entry
					vars[k] = v
				}
			}
			n.vars = vars
		}
		return n.tr(x.Args[0])
	case "val":
		v := arg(0)
		return Val{T: sx("select", g.heap(e.st, "BV", "(Array Int Int)"), v.T), S: "Int"}
	case "len":
		v := arg(0)
		switch {
		case v.S == "Slice":
			return Val{T: sx("s-len", v.T), S: "Int"}
		case v.G != nil && isString(v.G):
			return Val{T: sx(g.strlenFn(), v.T), S: "Int"}
		case v.G != nil:
			if a, ok := v.G.Underlying().(*types.Array); ok {
				return Val{T: fmt.Sprint(a.Len()), S: "Int"}
			}
		}
		e.fail("len of %s", v.S)
	case "cap":
		v := arg(0)
		return Val{T: sx("s-cap", v.T), S: "Int"}
	case "arr":
		// backing array of a slice, or the array object of an array-typed field
		v := arg(0)
		if v.S != "Slice" {
			return Val{T: v.T, S: "Int"}
		}
		return Val{T: sx("s-arr", v.T), S: "Int"}
	case "off":
		v := arg(0)
		return Val{T: sx("s-off", v.T), S: "Int"}
	case "fresh":
		v := arg(0)
		t := v.T
		switch v.S {
		case "Slice":
			t = sx("s-arr", v.T)
		case "Iface":
			t = sx("i-val", v.T)
		}
		return Val{T: sx(">", t, e.old.alloc), S: "Bool"}
	case "static":
		// static(x), library contracts only: the object was allocated at program
		// initialisation (package-level tables such as curve parameters), hence
		// before the entry of whichever function is being verified
		if !e.libCallee {
			e.fail("static(x) may only be used in library contracts")
		}
		v := arg(0)
		t := v.T
		switch v.S {
		case "Slice":
			t = sx("s-arr", v.T)
		case "Iface":
			t = sx("i-val", v.T)
		}
		if g.entry == nil {
			return Val{T: "true", S: "Bool"}
		}
		return Val{T: sx("<=", t, g.entry.alloc), S: "Bool"}
	case "allocated":
		v := arg(0)
		t := v.T
		switch v.S {
		case "Slice":
			t = sx("s-arr", v.T)
		case "Iface":
			t = sx("i-val", v.T)
		}
		return Val{T: sx("<=", t, e.st.alloc), S: "Bool"}
	case "fieldheap":
		tn := x.Args[0].(*EStr).V
		fname := x.Args[1].(*EStr).V
		t := g.P.typeByName(tn)
		if t == nil {
			e.fail("unknown type %s", tn)
		}
		if p, ok := t.Underlying().(*types.Pointer); ok {
			t = p.Elem()
		}
		for _, h := range g.structHeapsSorted(t) {
			if h.name == fieldHeapName(typeKey(t), fname) {
				return Val{T: g.heap(e.st, h.name, "(Array Int "+h.sort+")"), S: "(Array Int " + h.sort + ")"}
			}
		}
		e.fail("type %s has no field %s", tn, fname)
	case "bvheap":
		return Val{T: g.heap(e.st, "BV", "(Array Int Int)"), S: "(Array Int Int)"}
	case "byteheap":
		return Val{T: g.heap(e.st, "El.uint8", "(Array Int (Array Int Int))"), S: "(Array Int (Array Int Int))"}
	case "istype":
		v := arg(0)
		tn := x.Args[1].(*EStr).V
		t := g.P.typeByName(tn)
		if t == nil {
			e.fail("unknown type %s", tn)
		}
		return Val{T: sx("=", sx("i-typ", v.T), fmt.Sprint(g.P.typeTag(t))), S: "Bool"}
	case "cast":
		v := arg(0)
		tn := x.Args[1].(*EStr).V
		t := g.P.typeByName(tn)
		if t == nil {
			e.fail("unknown type %s", tn)
		}
		return g.ifacePayload(t, v.T)
	case "isnil":
		v := arg(0)
		switch v.S {
		case "Slice":
			return Val{T: sx("=", sx("s-arr", v.T), "0"), S: "Bool"}
		case "Iface":
			return Val{T: sx("=", sx("i-typ", v.T), "0"), S: "Bool"}
		}
		return Val{T: sx("=", v.T, "0"), S: "Bool"}
	case "chancap":
		v := arg(0)
		return Val{T: sx("chancap", v.T), S: "Int"}
	case "sent":
		v := arg(0)
		return Val{T: sx("select", g.heap(e.st, "ChanN", "(Array Int Int)"), v.T), S: "Int"}
	case "as":
		// as(x, "*pkg.T"): view an untyped reference (e.g. a value read back from a
		// channel ghost) at a Go pointer type
		v := arg(0)
		tn := x.Args[1].(*EStr).V
		if tn == "error" {
			// an error value read back from a channel ghost (boxed interface)
			t := types.Universe.Lookup("error").Type()
			return Val{T: g.unboxAny(v.T, "Iface"), S: "Iface", G: t}
		}
		if tn == "[]byte" {
			// a byte slice read back from a channel ghost (boxed)
			t := types.NewSlice(types.Typ[types.Byte])
			return Val{T: g.unboxAny(v.T, "Slice"), S: "Slice", G: t}
		}
		t := g.P.typeByName(tn)
		if t == nil {
			e.fail("unknown type %s", tn)
		}
		return Val{T: v.T, S: g.sortOf(t), G: t}
	case "sentb":
		// sentb(ch, k): the k-th value sent on a channel of bool
		v, k := arg(0), arg(1)
		boxed := sx("select", sx("select", g.heap(e.st, "ChanV", "(Array Int (Array Int Int))"), v.T), k.T)
		return Val{T: g.unboxAny(boxed, "Bool"), S: "Bool"}
	case "sentf":
		// sentf(ch, k, "field"): field of the k-th value sent on a channel of struct values
		v, k := arg(0), arg(1)
		fname := x.Args[2].(*EStr).V
		ch, ok := v.G.Underlying().(*types.Chan)
		if !ok {
			e.fail("sentf: not a channel")
		}
		st, ok := ch.Elem().Underlying().(*types.Struct)
		if !ok {
			e.fail("sentf: channel of non-struct values")
		}
		boxed := sx("select", sx("select", g.heap(e.st, "ChanV", "(Array Int (Array Int Int))"), v.T), k.T)
		un := g.unboxAny(boxed, g.sortOf(ch.Elem()))
		for i := 0; i < st.NumFields(); i++ {
			f := st.Field(i)
			if f.Name() == fname {
				return Val{T: sx(q("S."+typeKey(ch.Elem())+"."+fieldAcc(f, i)), un), S: g.sortOf(f.Type()), G: f.Type()}
			}
		}
		e.fail("sentf: no field %s", fname)
	case "closed":
		v := arg(0)
		return Val{T: sx("select", g.heap(e.st, "Closed", "(Array Int Bool)"), v.T), S: "Bool"}
	case "recvd":
		// recvd(ch): number of values received so far from channel ch
		v := arg(0)
		return Val{T: sx("select", g.heap(e.st, "ChanR", "(Array Int Int)"), v.T), S: "Int"}
	case "sentv":
		v, k := arg(0), arg(1)
		return Val{T: sx("select", sx("select", g.heap(e.st, "ChanV", "(Array Int (Array Int Int))"), v.T), k.T), S: "Int"}
	case "sample":
		lit, ok := x.Args[0].(*EInt)
		if !ok || e.sample == nil {
			e.fail("sample(k) needs a literal index and is only available in postconditions")
		}
		k, _ := strconv.Atoi(lit.V)
		return Val{T: e.sample(k), S: "Int"}
	case "held":
		v := arg(0)
		return Val{T: sx("select", g.heap(e.st, "Held", "(Array Int Bool)"), v.T), S: "Bool"}
	case "elems":
		// backing content of a slice as an SMT array, shifted view not applied
		v := arg(0)
		et := v.G.Underlying().(*types.Slice).Elem()
		es := g.sortOf(et)
		h := g.heap(e.st, elemHeapName(et), "(Array Int (Array Int "+es+"))")
		return Val{T: sx("select", h, sx("s-arr", v.T)), S: "(Array Int " + es + ")"}
	case "bytes":
		// abstract byte string held by a []byte
		v := arg(0)
		if v.S != "Slice" {
			e.fail("bytes() of %s", v.S)
		}
		h := g.heap(e.st, "El.uint8", "(Array Int (Array Int Int))")
		return Val{T: sx("bs", sx("select", h, sx("s-arr", v.T)), sx("s-off", v.T), sx("s-len", v.T)), S: "BStr"}
	case "box":
		v := arg(0)
		return Val{T: g.boxAny(v), S: "Int"}
	case "iface":
		// the interface value obtained by converting x (of its static Go type)
		v := arg(0)
		if v.G == nil {
			e.fail("iface() of untyped value")
		}
		if v.S == "Iface" {
			return v
		}
		return Val{T: g.mkIface(v.G, v), S: "Iface"}
	case "ifaceval":
		v := arg(0)
		return Val{T: sx("i-val", v.T), S: "Int"}
	case "ifacetyp":
		v := arg(0)
		return Val{T: sx("i-typ", v.T), S: "Int"}
	case "visited":
		// visited(m, k): key k has been produced by the running range over map m
		m, k := arg(0), arg(1)
		mt := m.G.Underlying().(*types.Map)
		return Val{T: sx("select", sx("select", g.heap(e.st, mapHeapName(mt, "vis"), g.mapHasSort(mt)), m.T), k.T), S: "Bool"}
	case "maphas":
		m, k := arg(0), arg(1)
		mt := m.G.Underlying().(*types.Map)
		return Val{T: sx("select", sx("select", g.heap(e.st, mapHeapName(mt, "has"), g.mapHasSort(mt)), m.T), k.T), S: "Bool"}
	}
	if gs, ok := g.P.cs.Ghost[x.Fn]; ok {
		v := arg(0)
		t := v.T
		if v.S == "Iface" {
			t = sx("i-val", v.T)
		}
		return Val{T: sx("select", g.heap(e.st, "Gh."+x.Fn, "(Array Int "+gs+")"), t), S: gs}
	}
	if m, ok := g.P.cs.Macros[x.Fn]; ok {
		if len(m.Params) != len(x.Args) {
			e.fail("macro %s expects %d arguments", x.Fn, len(m.Params))
		}
		if e.depth > 40 {
			e.fail("macro recursion too deep in %s", x.Fn)
		}
		sub := map[string]Expr{}
		for i, p := range m.Params {
			sub[p] = x.Args[i]
		}
		n := *e
		n.depth++
		return n.tr(substitute(m.Body, sub))
	}
	if f, ok := g.P.specFuns[x.Fn]; ok {
		if len(f.args) != len(x.Args) {
			e.fail("spec function %s expects %d arguments, got %d", x.Fn, len(f.args), len(x.Args))
		}
		var as []string
		for i := range x.Args {
			v := arg(i)
			if v.S == "nil" {
				v = Val{T: g.zeroOfSort(f.args[i], nil), S: f.args[i]}
			}
			if v.S != f.args[i] {
				e.fail("spec function %s argument %d: have %s, want %s", x.Fn, i, v.S, f.args[i])
			}
			as = append(as, v.T)
		}
		if len(as) == 0 {
			return Val{T: x.Fn, S: f.res}
		}
		rv := Val{T: sx(x.Fn, as...), S: f.res}
		if strings.HasPrefix(x.Fn, "lem") && f.res == "Bool" && len(e.bound) == 0 {
			// lemma instance (prelude: lemX(args) holds for all args, and naming an
			// instance triggers the lemma's body). Stated outside any path guard so
			// that the instance is available to every obligation of the function,
			// whatever the solver's relevancy filter makes of the guards.
			g.assumeRaw(rv.T)
			return Val{T: "true", S: "Bool"}
		}
		if tn, ok := g.P.cs.SpecTypes[x.Fn]; ok {
			rv.G = g.P.typeByName(tn)
		}
		return rv
	}
	e.fail("unknown function %s in contract", x.Fn)
	return Val{}
}

func isString(t types.Type) bool {
	b, ok := t.Underlying().(*types.Basic)
	return ok && b.Info()&types.IsString != 0
}

// ---------- modifies ----------

type modLoc struct {
	heap string // heap name; "" with all=true means everything
	base string // reference term; "" = any object
	idx  string // element index; "" = all elements
	sort string
	elem bool
	g    types.Type
}

// modLocs translates one modifies clause to heap locations.
func (e *Env) modLocs(x Expr) []modLoc {
	g := e.g
	switch x := x.(type) {
	case *ECall:
		switch x.Fn {
		case "val":
			v := e.tr(x.Args[0])
			return []modLoc{{heap: "BV", base: v.T, sort: "Int"}}
		case "cellof":
			// cellof(x): the variable x itself, for a variable captured by reference
			// (closures) or otherwise address-taken
			id, ok := x.Args[0].(*EIdent)
			if !ok {
				e.fail("cellof: expected a variable name")
			}
			ev, ok := e.vars[id.Name]
			if !ok || !ev.deref {
				e.fail("cellof(%s): not a variable held in a cell", id.Name)
			}
			pt, ok := ev.v.G.Underlying().(*types.Pointer)
			if !ok {
				e.fail("cellof(%s): not a cell", id.Name)
			}
			l := g.cellLoc(ev.v, pt.Elem())
			return []modLoc{{heap: l.Heap, base: l.Base, sort: l.S, g: l.G}}
		case "allof":
			tn := x.Args[0].(*EStr).V
			t := g.P.typeByName(tn)
			if t == nil {
				e.fail("unknown type %s", tn)
			}
			if p, ok := t.Underlying().(*types.Pointer); ok {
				t = p.Elem()
			}
			var out []modLoc
			for _, h := range g.structHeapsSorted(t) {
				out = append(out, modLoc{heap: h.name, sort: h.sort, g: h.g})
			}
			return out
		case "allghost":
			gn := x.Args[0].(*EStr).V
			gs, ok := g.P.cs.Ghost[gn]
			if !ok {
				e.fail("unknown ghost heap %s", gn)
			}
			return []modLoc{{heap: "Gh." + gn, sort: gs}}
		case "allfield":
			// one field of every object of a struct type
			tn := x.Args[0].(*EStr).V
			fname := x.Args[1].(*EStr).V
			t := g.P.typeByName(tn)
			if t == nil {
				e.fail("unknown type %s", tn)
			}
			if p, ok := t.Underlying().(*types.Pointer); ok {
				t = p.Elem()
			}
			for _, h := range g.structHeapsSorted(t) {
				if h.name == fieldHeapName(typeKey(t), fname) {
					return []modLoc{{heap: h.name, sort: h.sort, g: h.g}}
				}
			}
			e.fail("type %s has no field %s", tn, fname)
		case "allelems":
			tn := x.Args[0].(*EStr).V
			t := g.P.typeByName(tn)
			if t == nil {
				if o, ok := types.Universe.Lookup(tn).(*types.TypeName); ok {
					t = o.Type()
				}
			}
			if t == nil {
				e.fail("unknown type %s", tn)
			}
			return []modLoc{{heap: elemHeapName(t), sort: g.sortOf(t), elem: true, g: t}}
		case "allvals":
			return []modLoc{{heap: "BV", sort: "Int"}}
		case "sent":
			v := e.tr(x.Args[0])
			return []modLoc{{heap: "ChanN", base: v.T, sort: "Int"}, {heap: "ChanV", base: v.T, sort: "(Array Int Int)"}}
		case "held":
			v := e.tr(x.Args[0])
			return []modLoc{{heap: "Held", base: v.T, sort: "Bool"}}
		default:
			if gs, ok := g.P.cs.Ghost[x.Fn]; ok {
				v := e.tr(x.Args[0])
				t := v.T
				if v.S == "Iface" {
					t = sx("i-val", v.T)
				}
				return []modLoc{{heap: "Gh." + x.Fn, base: t, sort: gs}}
			}
		case "mapof":
			v := e.tr(x.Args[0])
			mt := v.G.Underlying().(*types.Map)
			ks := g.sortOf(mt.Key())
			return []modLoc{{heap: mapHeapName(mt, "has"), base: v.T, sort: "(Array " + ks + " Bool)"},
				{heap: mapHeapName(mt, "v"), base: v.T, sort: "(Array " + ks + " " + g.sortOf(mt.Elem()) + ")"}}
		}
	case *ESel:
		if x.Name == "*" {
			break
		}
		v := e.tr(x.X)
		path, ok := findFieldPath(v.G, x.Name)
		if !ok {
			e.fail("modifies: no field %s", x.Name)
		}
		cur := v
		for k, idx := range path {
			pt, ok := cur.G.Underlying().(*types.Pointer)
			if !ok {
				e.fail("modifies: %s is not a pointer", exprString(x.X))
			}
			loc, sub := g.fieldLoc(pt.Elem(), idx, cur.T)
			if k == len(path)-1 {
				if loc != nil {
					return []modLoc{{heap: loc.Heap, base: loc.Base, sort: loc.S, g: loc.G}}
				}
				var out []modLoc
				pe := sub.G.Underlying().(*types.Pointer).Elem()
				if a, ok := pe.Underlying().(*types.Array); ok {
					// array-valued field: all its elements
					return []modLoc{{heap: elemHeapName(a.Elem()), base: sub.T, sort: g.sortOf(a.Elem()), elem: true, g: a.Elem()}}
				}
				for _, h := range g.structHeapsSorted(pe) {
					out = append(out, modLoc{heap: h.name, base: sub.T, sort: h.sort, g: h.g})
				}
				return out
			}
			if loc != nil {
				cur = g.loadLoc(e.st, loc)
			} else {
				cur = sub
			}
		}
	case *EIndex:
		v := e.tr(x.X)
		if v.S != "Slice" {
			if v.G != nil {
				if p, ok := v.G.Underlying().(*types.Pointer); ok {
					if a, ok := p.Elem().Underlying().(*types.Array); ok {
						ml := modLoc{heap: elemHeapName(a.Elem()), base: v.T, sort: g.sortOf(a.Elem()), elem: true, g: a.Elem()}
						if id, ok := x.I.(*EIdent); !ok || id.Name != "*" {
							ml.idx = e.tr(x.I).T
						}
						return []modLoc{ml}
					}
				}
			}
			e.fail("modifies: index of non-slice")
		}
		et := v.G.Underlying().(*types.Slice).Elem()
		ml := modLoc{heap: elemHeapName(et), base: sx("s-arr", v.T), sort: g.sortOf(et), elem: true, g: et}
		if id, ok := x.I.(*EIdent); !ok || id.Name != "*" {
			ml.idx = sx("idx", sx("s-off", v.T), e.tr(x.I).T)
		}
		return []modLoc{ml}
	}
	// e.* : all fields of the object
	if s, ok := x.(*ESel); ok && s.Name == "*" {
		v := e.tr(s.X)
		pt, ok := v.G.Underlying().(*types.Pointer)
		if !ok {
			e.fail("modifies %s: not a pointer", exprString(x))
		}
		var out []modLoc
		for _, h := range g.structHeapsSorted(pt.Elem()) {
			out = append(out, modLoc{heap: h.name, base: v.T, sort: h.sort, g: h.g})
		}
		return out
	}
	e.fail("unsupported modifies clause %s", exprString(x))
	return nil
}

type heapInfo struct {
	name, sort string
	g          types.Type
}

func (g *Gen) structHeapsSorted(t types.Type) []heapInfo {
	var out []heapInfo
	s, ok := t.Underlying().(*types.Struct)
	if !ok {
		return nil
	}
	for i := 0; i < s.NumFields(); i++ {
		f := s.Field(i)
		if isAggregate(f.Type()) {
			// nested by-value struct or array: sub-object has its own reference; callers use e.f for those
			continue
		}
		out = append(out, heapInfo{fieldHeapName(typeKey(t), f.Name()), g.sortOf(f.Type()), f.Type()})
	}
	return out
}

// frameCheck: a write to heap[base] must be to a fresh object or inside the
// function's modifies clause.
func (g *Gen) frameCheck(heap, base, idx string, kind int) {
	if g.ct == nil || g.ct.ModAll || g.ct.Skip["frame"] {
		return
	}
	if strings.HasPrefix(heap, "struct:") {
		return
	}
	alts := []string{sx(">", base, g.entry.alloc), sx("=", base, "0")}
	for _, m := range g.ownMods() {
		if m.heap != heap {
			continue
		}
		c := "true"
		if m.base != "" {
			c = sx("=", base, m.base)
		}
		if m.idx != "" && idx != "" {
			c = and(c, sx("=", idx, m.idx))
		} else if m.idx != "" && idx == "" {
			continue
		}
		alts = append(alts, c)
	}
	g.check("frame", shortHeap(heap), or(alts...), "write to "+heap+" outside the modifies clause (object is neither fresh nor listed)")
}

func shortHeap(h string) string {
	if k := strings.LastIndex(h, "/"); k >= 0 {
		pre := h[:strings.Index(h, ".")+1]
		return pre + h[k+1:]
	}
	return h
}

func (g *Gen) ownMods() []modLoc {
	if g.ownModsDone {
		return g.ownModsV
	}
	g.ownModsDone = true
	env := g.funcEnv(g.entry, g.entry, nil)
	for _, c := range g.ct.Modifies {
		g.ownModsV = append(g.ownModsV, env.modLocs(c.E)...)
	}
	return g.ownModsV
}

// ---------- calls ----------

func shortKey(key string) string {
	// "(*crypto/mta.RangeProofAlice).Verify" -> "(*mta.RangeProofAlice).Verify"
	var b strings.Builder
	last := 0
	for i := 0; i < len(key); i++ {
		if key[i] == '/' {
			// drop from last separator to here
			j := i
			for j > last && (isIdentByte(key[j-1]) || key[j-1] == '.' || key[j-1] == '-') {
				j--
			}
			b.WriteString(key[last:j])
			last = i + 1
		}
	}
	b.WriteString(key[last:])
	return b.String()
}

func isIdentByte(c byte) bool {
	return c == '_' || (c >= '0' && c <= '9') || (c >= 'a' && c <= 'z') || (c >= 'A' && c <= 'Z')
}

func funcKey(fn *ssa.Function) string { return trimPkg(fn.String()) }

type calleeInfo struct {
	key    string
	fn     *ssa.Function
	sig    *types.Signature
	recv   *Val // receiver for invoke mode
	clo    *ssa.MakeClosure
	ct     *Contract
	invoke bool
}

func (g *Gen) resolveCallee(c *ssa.CallCommon) calleeInfo {
	ci := calleeInfo{sig: c.Signature()}
	if c.IsInvoke() {
		rt := c.Value.Type()
		ci.key = "(" + typeKey(rt) + ")." + c.Method.Name()
		ci.invoke = true
		ci.ct = g.P.contractFor(ci.key)
		return ci
	}
	if fn := c.StaticCallee(); fn != nil {
		ci.fn = fn
		ci.key = funcKey(fn)
		if mc, ok := c.Value.(*ssa.MakeClosure); ok {
			ci.clo = mc
		}
		ci.ct = g.P.contractFor(ci.key)
		return ci
	}
	if v, ok := g.vals[c.Value]; ok && v.Clo != nil {
		ci.clo = v.Clo
		ci.fn = v.Clo.Fn.(*ssa.Function)
		ci.key = funcKey(ci.fn)
		ci.ct = g.P.contractFor(ci.key)
		return ci
	}
	// call of a function value: a contract may be given for the function type
	// ("dyn:" + the type without spaces), e.g. dyn:func(tss.Round)*tss.Error
	ci.key = "dyn:" + strings.ReplaceAll(typeKey(c.Value.Type()), " ", "")
	ci.ct = g.P.contractFor(ci.key)
	return ci
}

// calleeWriteHeaps: heaps a call may write (for loop write sets).
func (g *Gen) calleeWriteHeaps(c *ssa.CallCommon) ([]string, bool) {
	if b, ok := c.Value.(*ssa.Builtin); ok {
		switch b.Name() {
		case "append":
			return []string{elemHeapName(c.Args[0].Type().Underlying().(*types.Slice).Elem())}, false
		case "copy":
			return []string{elemHeapName(c.Args[0].Type().Underlying().(*types.Slice).Elem())}, false
		case "delete":
			mt := c.Args[0].Type().Underlying().(*types.Map)
			return []string{mapHeapName(mt, "has")}, false
		case "close":
			return []string{"Closed"}, false
		}
		return nil, false
	}
	if n := intrinsicName(c); n != "" {
		if n == "sync/atomic.AddInt32" {
			return g.heapsOfAddr(c.Args[0]), false
		}
		return nil, false
	}
	ci := g.resolveCallee(c)
	if ci.ct == nil {
		return nil, true
	}
	if ci.ct.ModAll {
		return nil, true
	}
	// heaps written by the function values the callee calls back (invokes)
	var out []string
	if len(ci.ct.Invokes) > 0 {
		names, _ := calleeParams(ci, c)
		for _, pn := range ci.ct.Invokes {
			for i, n := range names {
				if n != pn {
					continue
				}
				k := i
				if ci.invoke {
					k = i - 1
				}
				if k < 0 || k >= len(c.Args) {
					return nil, true
				}
				hs, all := g.calleeWriteHeaps(&ssa.CallCommon{Value: c.Args[k]})
				if all {
					return nil, true
				}
				out = append(out, hs...)
			}
		}
	}
	if ci.ct.Pure && len(ci.ct.Modifies) == 0 {
		return out, false
	}
	// translate the modifies clauses statically: only heap names matter
	env := g.calleeEnvStatic(ci, c)
	for _, m := range ci.ct.Modifies {
		func() {
			defer func() {
				if r := recover(); r != nil {
					if _, ok := r.(specErr); ok {
						out = append(out, "*")
						return
					}
					panic(r)
				}
			}()
			for _, ml := range env.modLocs(m.E) {
				out = append(out, ml.heap)
			}
		}()
	}
	for _, o := range out {
		if o == "*" {
			return nil, true
		}
	}
	return out, false
}

// calleeEnvStatic builds a callee environment with dummy argument terms of
// the right types (used only to find heap names).
func (g *Gen) calleeEnvStatic(ci calleeInfo, c *ssa.CallCommon) *Env {
	env := &Env{g: g, vars: map[string]envVar{}, st: g.st, old: g.st, bound: map[string]bool{}}
	if env.st == nil {
		env.st = g.entry
		env.old = g.entry
	}
	names, typs := calleeParams(ci, c)
	for i, n := range names {
		v := Val{T: "0", S: g.sortOf(typs[i]), G: typs[i]}
		v.T = g.zeroOfSort(v.S, typs[i])
		env.vars[n] = envVar{v: v}
		if i == 0 && (ci.invoke || ci.sig.Recv() != nil) {
			env.vars["self"] = envVar{v: v}
		}
	}
	if ci.fn != nil {
		env.pkg = pkgOf(ci.fn)
		for _, fv := range ci.fn.FreeVars {
			env.vars[fv.Name()] = envVar{v: Val{T: "0", S: "Int", G: fv.Type()}, deref: true}
		}
	}
	return env
}

func pkgOf(fn *ssa.Function) *types.Package {
	for f := fn; f != nil; f = f.Parent() {
		if f.Pkg != nil {
			return f.Pkg.Pkg
		}
	}
	if fn.Object() != nil {
		return fn.Object().Pkg()
	}
	return nil
}

// calleeParams: names and types of the callee's parameters, receiver first.
func calleeParams(ci calleeInfo, c *ssa.CallCommon) ([]string, []types.Type) {
	var names []string
	var typs []types.Type
	if ci.invoke {
		names = append(names, "self")
		typs = append(typs, c.Value.Type())
	}
	if ci.fn != nil && len(ci.fn.Params) > 0 {
		for _, p := range ci.fn.Params {
			names = append(names, p.Name())
			typs = append(typs, p.Type())
		}
		return names, typs
	}
	sig := ci.sig
	if ci.fn != nil {
		sig = ci.fn.Signature
	}
	if r := sig.Recv(); r != nil && !ci.invoke {
		n := r.Name()
		if n == "" || n == "_" {
			n = "self"
		}
		names = append(names, n)
		typs = append(typs, r.Type())
	}
	for i := 0; i < sig.Params().Len(); i++ {
		p := sig.Params().At(i)
		n := p.Name()
		if n == "" || n == "_" {
			n = fmt.Sprintf("arg%d", i)
		}
		names = append(names, n)
		typs = append(typs, p.Type())
	}
	return names, typs
}

func (g *Gen) call(c *ssa.CallCommon, pos token.Pos, isGo bool) Val {
	if b, ok := c.Value.(*ssa.Builtin); ok {
		// call-site clauses on a builtin (`site append#1 : $arg1 == xs`): checked only
		sk := b.Name()
		ord := g.siteOrd[sk]
		g.siteOrd[sk] = ord + 1
		if g.ct != nil {
			for _, s := range g.ct.Sites {
				if s.Callee != sk || s.Ord != ord || s.Let != "" || s.Assume {
					continue
				}
				if g.siteHit == nil {
					g.siteHit = map[*SiteAssert]bool{}
				}
				g.siteHit[s] = true
				var args []Val
				for _, a := range c.Args {
					args = append(args, g.val(a))
				}
				env := g.siteEnv(calleeInfo{}, c, args)
				g.checkNamed("site", sk+"#"+fmt.Sprint(ord)+"."+clauseName(s.C, 0), env.boolOf(s.C.E), "call-site assertion: "+s.C.Src)
			}
		}
		return g.builtin(b, c)
	}
	if r, ok := g.intrinsic(c); ok {
		return r
	}
	ci := g.resolveCallee(c)
	sk := shortKey(ci.key)
	g.callees[ci.key] = true
	ord := g.siteOrd[sk]
	g.siteOrd[sk] = ord + 1

	var args []Val
	if ci.invoke {
		args = append(args, g.val(c.Value))
	}
	for _, a := range c.Args {
		v := g.val(a)
		if v.Loc != nil {
			g.bail("address of field/element passed to %s", sk)
		}
		args = append(args, v)
	}
	// result values
	results := ci.sig.Results()
	mkResults := func() ([]Val, Val) {
		var rs []Val
		for i := 0; i < results.Len(); i++ {
			v := g.freshVal(fmt.Sprintf("res.%s.%d", lastDot(sk), i), results.At(i).Type())
			rs = append(rs, v)
		}
		switch len(rs) {
		case 0:
			return rs, Val{}
		case 1:
			return rs, rs[0]
		}
		return rs, Val{Tup: rs}
	}

	// site assertions of the caller's contract
	if g.ct != nil {
		for _, s := range g.ct.Sites {
			if s.Callee == sk && s.Ord == ord {
				if g.siteHit == nil {
					g.siteHit = map[*SiteAssert]bool{}
				}
				g.siteHit[s] = true
				env := g.siteEnv(ci, c, args)
				if s.Let != "" {
					v := env.tr(s.C.E)
					if v.Loc != nil || len(v.Tup) > 0 || v.S == "" {
						g.bail("site let %s: unsupported value", s.Let)
					}
					cst := g.declConst(g.fresh("ghostlet."+s.Let), v.S)
					g.assume(sx("=", cst, v.T))
					if g.ghostLets == nil {
						g.ghostLets = map[string]Val{}
					}
					g.ghostLets[s.Let] = Val{T: cst, S: v.S, G: v.G}
					continue
				}
				if s.Assume {
					g.assume(env.boolOf(s.C.E))
					g.assumed = appendUniq(g.assumed, "assumed at a call of "+sk+" in "+shortKey(g.key)+": "+s.C.Src)
					continue
				}
				g.checkNamed("site", sk+"#"+fmt.Sprint(ord)+"."+clauseName(s.C, 0), env.boolOf(s.C.E), "call-site assertion: "+s.C.Src)
			}
		}
	}

	if ci.invoke {
		g.check("nil", "invoke."+c.Method.Name(), not(sx("=", sx("i-typ", args[0].T), "0")), "method call on nil interface")
	}

	ct := ci.ct
	if ct == nil {
		// default contract: may panic, modifies everything, results arbitrary
		g.check("nocontract", sk, "false", "call to "+ci.key+" which has no contract (may panic, may modify anything)")
		htag := g.havocAll("call")
		rs, r := mkResults()
		na := g.declConst(g.fresh("alloc@call"), "Int")
		g.assumeRaw(sx("<=", g.st.alloc, na))
		g.st.alloc = na
		g.registerTag(htag, na)
		for _, v := range rs {
			g.assume(g.typeInv(v, g.st))
		}
		return r
	}
	if ct.NoBody || ct.Trusted {
		g.assumed = appendUniq(g.assumed, "contract of "+ci.key+" ("+ctKind(ct)+")")
	}
	names, _ := calleeParams(ci, c)
	pre := g.st.clone()
	env := &Env{g: g, vars: map[string]envVar{}, st: pre, old: pre, bound: map[string]bool{}, libCallee: ct.NoBody}
	if ci.fn != nil {
		env.pkg = pkgOf(ci.fn)
	} else if ci.invoke {
		if n, ok := c.Value.Type().(*types.Named); ok && n.Obj().Pkg() != nil {
			env.pkg = n.Obj().Pkg()
		}
	}
	if len(names) != len(args) {
		g.bail("call to %s: %d parameter names for %d arguments", sk, len(names), len(args))
	}
	for i, n := range names {
		env.vars[n] = envVar{v: args[i]}
		if i == 0 && (ci.invoke || ci.sig.Recv() != nil || (ci.fn != nil && ci.fn.Signature.Recv() != nil)) {
			env.vars["self"] = envVar{v: args[i]}
		}
	}
	if ci.clo != nil {
		fn := ci.clo.Fn.(*ssa.Function)
		for i, fv := range fn.FreeVars {
			b := g.val(ci.clo.Bindings[i])
			if b.Loc != nil {
				g.bail("closure captures an unreified address")
			}
			env.vars[fv.Name()] = envVar{v: b, deref: true}
		}
	}
	for k, rq := range ct.Requires {
		g.check("pre", sk+"."+clauseName(rq, k), env.boolOf(rq.E), "precondition of "+sk+": "+rq.Src)
	}
	if ct.MayPanic && (g.ct == nil || !g.ct.MayPanic) {
		g.check("panic", "callee."+sk, "false", "callee "+sk+" is declared maypanic")
	}
	for _, u := range ct.Unfold {
		g.unfoldHints(env, u)
	}
	// modifies
	allTag := ""
	if ct.ModAll {
		if g.ct != nil && !g.ct.ModAll {
			g.check("frame", "call."+sk, "false", "callee "+sk+" modifies * but the caller has a modifies clause")
		}
		allTag = g.havocAll("call")
	} else {
		for _, m := range ct.Modifies {
			for _, ml := range env.modLocs(m.E) {
				g.frameCheckMod(ml)
				g.havocMod(ml)
			}
		}
	}
	rs, r := mkResults()
	// allocation may have advanced
	na := g.declConst(g.fresh("alloc@call"), "Int")
	g.assumeRaw(sx("<=", g.st.alloc, na))
	g.st.alloc = na
	if allTag != "" {
		g.registerTag(allTag, na)
	}
	for _, v := range rs {
		g.assume(g.typeInv(v, g.st))
		// references are allocated refStride apart: a returned reference either
		// existed before the call or lies a full stride above the old counter
		if v.G != nil {
			ref := ""
			switch v.G.Underlying().(type) {
			case *types.Pointer, *types.Map, *types.Chan:
				ref = v.T
			case *types.Slice:
				ref = sx("s-arr", v.T)
			}
			if ref != "" {
				g.assume(or(sx("<=", ref, pre.alloc), sx("<=", sx("+", pre.alloc, fmt.Sprint(refStride)), ref)))
			}
		}
	}
	post := *env
	post.st = g.st
	post.old = pre
	post.res = rs
	post.vars = map[string]envVar{}
	for k, v := range env.vars {
		post.vars[k] = v
	}
	for i := 0; i < results.Len() && i < len(rs); i++ {
		if n := results.At(i).Name(); n != "" && n != "_" {
			if _, clash := post.vars[n]; !clash {
				post.vars[n] = envVar{v: rs[i]}
			}
		}
	}
	// ghost draws of the callee appear to the caller as unknown constants
	calleeSamples := map[int]string{}
	post.sample = func(k int) string {
		if s, ok := calleeSamples[k]; ok {
			return s
		}
		s := g.declConst(g.fresh(fmt.Sprintf("sample.%s.%d", lastDot(sk), k)), "Int")
		calleeSamples[k] = s
		return s
	}
	if ct.Sampler && len(rs) > 0 && rs[0].S == "Int" {
		// the value drawn by this call is the caller's next ghost sample
		bv := g.heap(g.st, "BV", "(Array Int Int)")
		g.samples = append(g.samples, g.define("sample", "Int", sx("select", bv, rs[0].T)))
	}
	for _, en := range ct.Ensures {
		if en.Assumed {
			g.assumed = appendUniq(g.assumed, "assumed postcondition ["+en.Label+"] of "+ci.key+": "+en.Src)
		}
		g.assume(post.boolOf(en.E))
	}
	// invokes: apply the contract of each function value the callee calls back
	for _, pn := range ct.Invokes {
		if os.Getenv("TSVC_DEBUG") != "" {
			fmt.Fprintln(os.Stderr, "invokes", sk, pn, names, len(c.Args))
		}
		for i, n := range names {
			if n != pn {
				continue
			}
			k := i
			if ci.invoke || ci.sig.Recv() != nil || (ci.fn != nil && ci.fn.Signature.Recv() != nil) {
				k = i - 1 // c.Args excludes the receiver of an invoke; for static methods the receiver is c.Args[0]
				if !ci.invoke {
					k = i
				}
			}
			if k < 0 || k >= len(c.Args) {
				continue
			}
			fv := c.Args[k]
			sig, ok := fv.Type().Underlying().(*types.Signature)
			if !ok {
				continue
			}
			syn := &ssa.CallCommon{Value: fv}
			for q := 0; q < sig.Params().Len(); q++ {
				ph := new(ssa.Parameter)
				g.vals[ph] = g.freshVal("cbarg", sig.Params().At(q).Type())
				g.assume(g.typeInv(g.vals[ph], g.st))
				syn.Args = append(syn.Args, ph)
			}
			g.call(syn, pos, false)
		}
	}
	return r
}

// unfoldHints states ground instances of the recursive definition of framei
// (prelude) for the 16 topmost elements of the list: for m = n, n-1, ..., n-15
//   m > 0  ==> framei(i,R,o,m,B) = fr(framei(i,R,o,m-1,B), elem(m-1))
//   m <= 0 ==> framei(i,R,o,m,B) = i
// Each line is an instance of the prelude axioms (with frameiz rewritten to
// framei by the axiom framei = frameiz), so nothing new is assumed.
func (g *Gen) unfoldHints(env *Env, u Expr) {
	c, ok := u.(*ECall)
	if !ok || c.Fn != "framei" || len(c.Args) != 5 {
		panic(specErr{"unfold supports framei(init, R, o, n, B) only"})
	}
	var a [5]string
	for i := range a {
		a[i] = env.tr(c.Args[i]).T
	}
	init, R, o, n, B := a[0], a[1], a[2], a[3], a[4]
	nn := g.define("ufn", "Int", n)
	for j := 0; j < 16; j++ {
		m := nn
		if j > 0 {
			m = sx("-", nn, fmt.Sprint(j))
		}
		m1 := sx("-", nn, fmt.Sprint(j+1))
		ref := sx("select", R, sx("+", o, m1))
		ev := sx("ite", sx("=", ref, "0"), "0", sx("select", B, ref))
		cur := sx("framei", init, R, o, m, B)
		prev := sx("framei", init, R, o, m1, B)
		g.assume(implies(sx(">", m, "0"), sx("=", cur, sx("cat", sx("cat", sx("cat", prev, sx("be", ev)), "(single 36)"), sx("le64", sx("blen", sx("be", ev)))))))
		g.assume(implies(sx("<=", m, "0"), sx("=", cur, init)))
	}
}

func ctKind(ct *Contract) string {
	if ct.NoBody {
		return "library contract, trusted"
	}
	return "declared trusted, body not verified"
}

func lastDot(s string) string {
	if k := strings.LastIndex(s, "."); k >= 0 {
		return s[k+1:]
	}
	return s
}

func (g *Gen) siteEnv(ci calleeInfo, c *ssa.CallCommon, args []Val) *Env {
	env := g.funcEnv(g.st, g.entry, nil)
	vals, cells := g.varsAtPoint()
	for n, v := range vals {
		if _, have := env.vars[n]; !have {
			env.vars[n] = envVar{v: v}
		}
	}
	for n, v := range cells {
		// a variable that lives in a cell: its value is the cell's content now
		if _, have := env.vars[n]; !have {
			env.vars[n] = envVar{v: v, deref: true}
		}
	}
	for i, a := range args {
		env.vars[fmt.Sprintf("$arg%d", i)] = envVar{v: a}
	}
	return env
}

// varsAtPoint: source-level variables visible at the current instruction (for
// call-site assertions): those of the dominating blocks plus the phis and debug
// references of the current block up to the instruction.
func (g *Gen) varsAtPoint() (map[string]Val, map[string]Val) {
	out := map[string]Val{}
	if g.curBlk == nil {
		return out, nil
	}
	names, addrs := g.varsAt(g.curBlk)
	for n, v := range names {
		out[n] = v
	}
	for _, in := range g.curBlk.Instrs {
		if in == g.curIn {
			break
		}
		if phi, ok := in.(*ssa.Phi); ok {
			if v, have := g.vals[phi]; have && phi.Comment != "" && phi.Comment != "rangeindex" && v.Loc == nil && len(v.Tup) == 0 {
				out[phi.Comment] = v
			}
			continue
		}
		d, ok := in.(*ssa.DebugRef)
		if !ok || d.IsAddr {
			continue
		}
		if _, isIdent := d.Expr.(interface{ IsExported() bool }); !isIdent {
			continue
		}
		id, ok := d.Expr.(interface{ String() string })
		if !ok {
			continue
		}
		if _, have := g.vals[d.X]; !have {
			if _, isC := d.X.(*ssa.Const); !isC {
				continue
			}
		}
		v := g.val(d.X)
		if v.Loc != nil || len(v.Tup) > 0 {
			continue
		}
		if _, isCell := addrs[id.String()]; isCell {
			continue
		}
		out[id.String()] = v
	}
	return out, addrs
}

func (g *Gen) frameCheckMod(ml modLoc) {
	if ml.base == "" {
		if g.ct != nil && !g.ct.ModAll {
			// whole-heap modification: the caller must list the same
			for _, m := range g.ownMods() {
				if m.heap == ml.heap && m.base == "" {
					return
				}
			}
			g.check("frame", "call."+shortHeap(ml.heap), "false", "callee modifies all of "+ml.heap)
		}
		return
	}
	kind := LField
	if ml.elem {
		kind = LElem
	}
	g.frameCheck(ml.heap, ml.base, ml.idx, kind)
}

func (g *Gen) havocMod(ml modLoc) {
	st := g.st
	if ml.elem {
		hs := "(Array Int (Array Int " + ml.sort + "))"
		h := g.heap(st, ml.heap, hs)
		if ml.base == "" {
			st.heaps[ml.heap] = g.declConst(g.fresh(ml.heap+"@hv"), hs)
			return
		}
		if ml.idx == "" {
			na := g.declConst(g.fresh("hva"), "(Array Int "+ml.sort+")")
			g.setHeap(st, ml.heap, hs, sx("store", h, ml.base, na))
			return
		}
		nv := g.declConst(g.fresh("hv"), ml.sort)
		g.setHeap(st, ml.heap, hs, sx("store", h, ml.base, sx("store", sx("select", h, ml.base), ml.idx, nv)))
		g.assume(g.typeInv(Val{T: nv, S: ml.sort, G: ml.g}, st))
		return
	}
	hs := "(Array Int " + ml.sort + ")"
	h := g.heap(st, ml.heap, hs)
	if ml.base == "" {
		st.heaps[ml.heap] = g.declConst(g.fresh(ml.heap+"@hv"), hs)
		return
	}
	nv := g.declConst(g.fresh("hv"), ml.sort)
	g.setHeap(st, ml.heap, hs, sx("store", h, ml.base, nv))
	g.assume(g.typeInv(Val{T: nv, S: ml.sort, G: ml.g}, st))
}

// havocAll gives every heap a fresh value (callee without a usable frame).
func (g *Gen) registerTag(tag, alloc string) {
	g.tagAlloc[tag] = alloc
	for k := range g.heapSort {
		if t, ok := g.st.heaps[k]; ok && strings.HasSuffix(t, "@"+tag+"|") {
			g.setVerAlloc(k, t, alloc)
		}
	}
}

func (g *Gen) havocAll(tag string) string {
	t := g.fresh(tag)
	defer func() {}()
	var ks []string
	for k := range g.heapSort {
		ks = append(ks, k)
	}
	sort.Strings(ks)
	for _, k := range ks {
		g.st.heaps[k] = g.declConst(k+"@"+t, g.heapSort[k])
	}
	g.st.pendAll = t
	g.st.pend = map[string]string{}
	return t
}

func (g *Gen) runDeferred(d deferred) {
	before := g.st.clone()
	saveCur := g.cur
	g.cur = g.define("r", "Bool", and(g.cur, d.cond))
	g.curPos = d.pos
	g.call(d.call, d.pos, false)
	after := g.st
	// merge: effects apply only if the defer statement was executed
	keys := map[string]bool{}
	for k := range after.heaps {
		keys[k] = true
	}
	var ks []string
	for k := range keys {
		ks = append(ks, k)
	}
	sort.Strings(ks)
	for _, k := range ks {
		a, b := g.heap(after, k, g.heapSort[k]), g.heap(before, k, g.heapSort[k])
		if a != b {
			after.heaps[k] = g.define("h", g.heapSort[k], sx("ite", d.cond, a, b))
		}
	}
	g.cur = saveCur
}

// ---------- builtins ----------

func (g *Gen) builtin(b *ssa.Builtin, c *ssa.CallCommon) Val {
	switch b.Name() {
	case "len":
		v := g.val(c.Args[0])
		switch u := c.Args[0].Type().Underlying().(type) {
		case *types.Slice:
			return Val{T: sx("s-len", v.T), S: "Int", G: types.Typ[types.Int]}
		case *types.Basic:
			return Val{T: sx(g.strlenFn(), v.T), S: "Int", G: types.Typ[types.Int]}
		case *types.Array:
			return Val{T: fmt.Sprint(u.Len()), S: "Int", G: types.Typ[types.Int]}
		case *types.Pointer:
			return Val{T: fmt.Sprint(u.Elem().Underlying().(*types.Array).Len()), S: "Int", G: types.Typ[types.Int]}
		case *types.Map:
			f := g.declFun("maplen", []string{"Int"}, "Int")
			r := Val{T: sx(f, v.T), S: "Int", G: types.Typ[types.Int]}
			g.unsup = appendUniq(g.unsup, "len(map) abstracted to an arbitrary non-negative int")
			rv := g.freshVal("maplen", types.Typ[types.Int])
			g.assume(sx("<=", "0", rv.T))
			_ = r
			return rv
		case *types.Chan:
			rv := g.freshVal("chanlen", types.Typ[types.Int])
			g.assume(sx("<=", "0", rv.T))
			return rv
		}
	case "cap":
		v := g.val(c.Args[0])
		if _, ok := c.Args[0].Type().Underlying().(*types.Slice); ok {
			return Val{T: sx("s-cap", v.T), S: "Int", G: types.Typ[types.Int]}
		}
	case "append":
		return g.appendOp(c)
	case "copy":
		return g.copyOp(c)
	case "close":
		ch := g.val(c.Args[0])
		g.check("nil", "close", not(sx("=", ch.T, "0")), "close of nil channel")
		h := g.heap(g.st, "Closed", "(Array Int Bool)")
		g.check("lib-pre", "close.twice", not(sx("select", h, ch.T)), "close of closed channel")
		g.setHeap(g.st, "Closed", "(Array Int Bool)", sx("store", h, ch.T, "true"))
		return Val{}
	case "delete":
		m := g.val(c.Args[0])
		k := g.val(c.Args[1])
		mt := c.Args[0].Type().Underlying().(*types.Map)
		hh, hs := mapHeapName(mt, "has"), g.mapHasSort(mt)
		h := g.heap(g.st, hh, hs)
		g.setHeap(g.st, hh, hs, sx("store", h, m.T, sx("store", sx("select", h, m.T), k.T, "false")))
		return Val{}
	case "print", "println":
		return Val{}
	case "min", "max":
		a, bb := g.val(c.Args[0]), g.val(c.Args[1])
		op := "<"
		if b.Name() == "max" {
			op = ">"
		}
		return Val{T: sx("ite", sx(op, a.T, bb.T), a.T, bb.T), S: "Int", G: c.Args[0].Type()}
	}
	g.bail("builtin %s", b.Name())
	return Val{}
}

func (g *Gen) appendOp(c *ssa.CallCommon) Val {
	s := g.val(c.Args[0])
	t := g.val(c.Args[1])
	st := c.Args[0].Type().Underlying().(*types.Slice)
	et := st.Elem()
	if _, isStruct := et.Underlying().(*types.Struct); isStruct {
		g.bail("append to a slice of struct values")
	}
	es := g.sortOf(et)
	hn := elemHeapName(et)
	hs := "(Array Int (Array Int " + es + "))"
	h := g.heap(g.st, hn, hs)
	var n string
	srcIsString := false
	if t.S == "Slice" {
		n = sx("s-len", t.T)
	} else {
		n = sx(g.strlenFn(), t.T)
		srcIsString = true
	}
	slen := sx("s-len", s.T)
	newLen := g.define("applen", "Int", sx("+", slen, n))
	fits := g.define("appfits", "Bool", sx("<=", newLen, sx("s-cap", s.T)))
	nr := g.newRef(g.st)
	old := sx("select", h, sx("s-arr", s.T))
	soff := sx("s-off", s.T)
	arrR := g.define("apparr", "Int", sx("ite", fits, sx("s-arr", s.T), nr))
	capNew := g.declConst(g.fresh("appcap"), "Int")
	g.assume(and(sx("<=", newLen, capNew), sx("<=", capNew, "281474976710656")))
	capR := sx("ite", fits, sx("s-cap", s.T), capNew)
	// Model: a grown slice keeps its offset inside a new backing array whose
	// content outside the appended range equals the old array's (elements
	// between len and cap of a grown slice are unspecified by the language).
	R := g.define("app", "Slice", sx("mk-slice", arrR, soff, newLen, capR))
	var A string
	if elems, ok := g.constVarargs(c.Args[1], h); ok {
		A = old
		for i, e := range elems {
			A = sx("store", A, sx("idx", soff, sx("+", slen, fmt.Sprint(i))), e)
		}
		A = g.define("appA", "(Array Int "+es+")", A)
	} else {
		A = g.declConst(g.fresh("appA"), "(Array Int "+es+")")
		// constants (not macro-expanded terms) inside the patterns: z3 rejects ite in patterns
		base := g.declConst(g.fresh("appbase"), "Int")
		g.assumeRaw(sx("=", base, sx("+", soff, slen)))
		if !srcIsString {
			srcA := g.declConst(g.fresh("appsrc"), "(Array Int "+es+")")
			g.assumeRaw(sx("=", srcA, sx("select", h, sx("s-arr", t.T))))
			toff := g.declConst(g.fresh("apptoff"), "Int")
			g.assumeRaw(sx("=", toff, sx("s-off", t.T)))
			g.assume(fmt.Sprintf("(forall ((p Int)) (! (=> (and (<= %s p) (< p (+ %s %s))) (= (select %s p) (select %s (idx %s (- p %s))))) :pattern ((select %s p))))",
				base, base, n, A, srcA, toff, base, A))
		}
		oldA := g.declConst(g.fresh("appold"), "(Array Int "+es+")")
		g.assumeRaw(sx("=", oldA, old))
		g.assume(fmt.Sprintf("(forall ((k Int)) (! (=> (or (< k %s) (>= k (+ %s %s))) (= (select %s k) (select %s k))) :pattern ((select %s k))))",
			base, base, n, A, oldA, A))
	}
	if hn == "El.uint8" && !srcIsString {
		// ghost: the abstract byte string of the result is the concatenation
		g.assume(sx("=", sx("bs", A, soff, newLen), sx("cat", sx("bs", old, soff, slen), sx("bs", sx("select", h, sx("s-arr", t.T)), sx("s-off", t.T), n))))
		// the prefix keeps its bytes (elements below the old length are copied / untouched)
		g.assume(sx("=", sx("bs", A, soff, slen), sx("bs", old, soff, slen)))
	}
	// an append that fits writes into the existing backing array
	{
		save := g.cur
		g.cur = g.define("r", "Bool", and(g.cur, fits, sx(">", n, "0")))
		g.frameCheck(hn, sx("s-arr", s.T), "", LElem)
		g.cur = save
	}
	g.setHeap(g.st, hn, hs, sx("ite", sx("=", arrR, "0"), h, sx("store", h, arrR, A)))
	return Val{T: R, S: "Slice", G: c.Args[0].Type()}
}

// constVarargs recognises append(s, e0, ..., eN-1): the second argument is a
// full slice of a fresh fixed-size array; its elements are read directly.
func (g *Gen) constVarargs(v ssa.Value, h string) ([]string, bool) {
	sl, ok := v.(*ssa.Slice)
	if !ok || sl.Low != nil || sl.High != nil || sl.Max != nil {
		return nil, false
	}
	al, ok := sl.X.(*ssa.Alloc)
	if !ok {
		return nil, false
	}
	at, ok := al.Type().Underlying().(*types.Pointer).Elem().Underlying().(*types.Array)
	if !ok || at.Len() > 16 {
		return nil, false
	}
	ref := g.val(al)
	var out []string
	for i := int64(0); i < at.Len(); i++ {
		out = append(out, sx("select", sx("select", h, ref.T), fmt.Sprint(i)))
	}
	return out, true
}

func (g *Gen) copyOp(c *ssa.CallCommon) Val {
	d := g.val(c.Args[0])
	s := g.val(c.Args[1])
	et := c.Args[0].Type().Underlying().(*types.Slice).Elem()
	es := g.sortOf(et)
	hn := elemHeapName(et)
	hs := "(Array Int (Array Int " + es + "))"
	h := g.heap(g.st, hn, hs)
	var sl string
	if s.S == "Slice" {
		sl = sx("s-len", s.T)
	} else {
		sl = sx(g.strlenFn(), s.T)
	}
	n := g.define("copyn", "Int", sx("ite", sx("<", sx("s-len", d.T), sl), sx("s-len", d.T), sl))
	A := g.declConst(g.fresh("copyA"), "(Array Int "+es+")")
	old := g.declConst(g.fresh("copyold"), "(Array Int "+es+")")
	g.assumeRaw(sx("=", old, sx("select", h, sx("s-arr", d.T))))
	doff := g.declConst(g.fresh("copydoff"), "Int")
	g.assumeRaw(sx("=", doff, sx("s-off", d.T)))
	if s.S == "Slice" {
		src := g.declConst(g.fresh("copysrc"), "(Array Int "+es+")")
		g.assumeRaw(sx("=", src, sx("select", h, sx("s-arr", s.T))))
		soffc := g.declConst(g.fresh("copysoff"), "Int")
		g.assumeRaw(sx("=", soffc, sx("s-off", s.T)))
		g.assume(fmt.Sprintf("(forall ((p Int)) (! (=> (and (<= %s p) (< p (+ %s %s))) (= (select %s p) (select %s (idx %s (- p %s))))) :pattern ((select %s p))))",
			doff, doff, n, A, src, soffc, doff, A))
	}
	g.assume(fmt.Sprintf("(forall ((k Int)) (! (=> (or (< k %s) (>= k (+ %s %s))) (= (select %s k) (select %s k))) :pattern ((select %s k))))",
		doff, doff, n, A, old, A))
	if hn == "El.uint8" && s.S == "Slice" {
		// ghost: abstract byte strings of the copied prefix and of the untouched suffix
		src := sx("select", h, sx("s-arr", s.T))
		g.assume(sx("=", sx("bs", A, doff, n), sx("bs", src, sx("s-off", s.T), n)))
		g.assume(implies(sx("=", n, sx("s-len", d.T)), sx("=", sx("bs", A, doff, sx("s-len", d.T)), sx("bs", src, sx("s-off", s.T), n))))
	}
	save := g.cur
	g.cur = g.define("r", "Bool", and(g.cur, sx(">", n, "0")))
	g.frameCheck(hn, sx("s-arr", d.T), "", LElem)
	g.cur = save
	g.setHeap(g.st, hn, hs, sx("ite", sx(">", n, "0"), sx("store", h, sx("s-arr", d.T), A), h))
	return Val{T: n, S: "Int", G: types.Typ[types.Int]}
}

// ---------- intrinsics ----------

// intrinsicName: the few library functions the generator executes itself
// instead of through a contract (their meaning is not expressible in the
// contract language: real-valued results, a store through a pointer to a
// machine integer).
func intrinsicName(c *ssa.CallCommon) string {
	fn, ok := c.Value.(*ssa.Function)
	if !ok || fn.Pkg == nil || c.IsInvoke() {
		return ""
	}
	switch n := fn.Pkg.Pkg.Path() + "." + fn.Name(); n {
	case "math.Ceil", "math.Floor", "sync/atomic.AddInt32":
		return n
	}
	return ""
}

func (g *Gen) intrinsic(c *ssa.CallCommon) (Val, bool) {
	switch intrinsicName(c) {
	case "math.Ceil":
		// floats are modelled as reals (see convert); ceil(x) = -floor(-x)
		v := g.val(c.Args[0])
		g.assumed = appendUniq(g.assumed, "float64 values are modelled as real numbers (exact for the integer/2^k values that occur); math.Ceil/Floor as the real ceiling/floor")
		return Val{T: sx("-", sx("to_real", sx("to_int", sx("-", v.T)))), S: "Real", G: types.Typ[types.Float64]}, true
	case "math.Floor":
		v := g.val(c.Args[0])
		g.assumed = appendUniq(g.assumed, "float64 values are modelled as real numbers (exact for the integer/2^k values that occur); math.Ceil/Floor as the real ceiling/floor")
		return Val{T: sx("to_real", sx("to_int", v.T)), S: "Real", G: types.Typ[types.Float64]}, true
	case "sync/atomic.AddInt32":
		// *addr += delta (wrapping), returns the new value; executed at once
		// under the join rule, so atomicity adds nothing
		p, d := g.val(c.Args[0]), g.val(c.Args[1])
		if p.Loc != nil {
			g.bail("atomic.AddInt32 on an unreified address")
		}
		g.check("nil", "atomic.AddInt32", not(sx("=", p.T, "0")), "nil pointer dereference (atomic.AddInt32)")
		et := types.Typ[types.Int32]
		l := g.cellLoc(p, et)
		old := g.loadLoc(g.st, l)
		nv := g.define("atomicadd", "Int", wrap(sx("+", old.T, d.T), et, true))
		g.frameCheck(l.Heap, p.T, "", LCell)
		g.storeLoc(g.st, l, nv)
		return Val{T: nv, S: "Int", G: et}, true
	}
	return Val{}, false
}
