package main

import (
	"math/big"
	"fmt"
	"go/constant"
	"go/token"
	"go/types"
	"sort"
	"strings"

	"golang.org/x/tools/go/ssa"
)

// ---------- values ----------

func (g *Gen) strConst(s string) string {
	if s == "" {
		return "0"
	}
	// content-derived identifier: deterministic across runs and goroutines
	// (distinct literals collide with probability ~2^-47)
	h := hashStr("str:" + s)
	var k uint64
	for i := 0; i < 12; i++ {
		c := h[i]
		var d uint64
		if c >= 'a' {
			d = uint64(c-'a') + 10
		} else {
			d = uint64(c - '0')
		}
		k = k*16 + d
	}
	return fmt.Sprint(k + 1)
}

func (g *Gen) constVal(c *ssa.Const) Val {
	t := c.Type()
	s := g.sortOf(t)
	if c.Value == nil {
		return Val{T: g.zeroOfSort(s, t), S: s, G: t}
	}
	switch c.Value.Kind() {
	case constant.Bool:
		if constant.BoolVal(c.Value) {
			return Val{T: "true", S: "Bool", G: t}
		}
		return Val{T: "false", S: "Bool", G: t}
	case constant.Int:
		return Val{T: intLit(c.Value.ExactString()), S: "Int", G: t}
	case constant.String:
		return Val{T: g.strConst(constant.StringVal(c.Value)), S: "Int", G: t}
	case constant.Float:
		// exact rational value of the constant (floats are modelled as reals)
		num, den := constant.Num(c.Value), constant.Denom(c.Value)
		if num.Kind() == constant.Int && den.Kind() == constant.Int {
			n, d := realLit(num.ExactString()), realLit(den.ExactString())
			if d == "1.0" {
				return Val{T: n, S: "Real", G: t}
			}
			return Val{T: sx("/", n, d), S: "Real", G: t}
		}
		r := g.freshVal("fconst", t)
		g.unsup = appendUniq(g.unsup, "floating point constant abstracted")
		return r
	}
	g.bail("constant kind %v", c.Value.Kind())
	return Val{}
}

func (g *Gen) val(v ssa.Value) Val {
	switch x := v.(type) {
	case *ssa.Const:
		return g.constVal(x)
	case *ssa.Global:
		return Val{T: fmt.Sprint(g.P.globalRef(x) * refStride), S: "Int", G: x.Type()}
	case *ssa.Function:
		return Val{T: fmt.Sprint(g.P.funcRef(x) * refStride), S: "Int", G: x.Type()}
	case *ssa.Builtin:
		return Val{T: "0", S: "Int", G: x.Type()}
	}
	if r, ok := g.vals[v]; ok {
		return r
	}
	g.bail("value %s (%T) used before definition", v.Name(), v)
	return Val{}
}

func (g *Gen) set(v ssa.Value, r Val) {
	if r.Loc == nil && len(r.Tup) == 0 && r.T != "" {
		if r.G == nil {
			r.G = v.Type()
		}
		r.T = g.define("v."+v.Name(), r.S, r.T)
	}
	g.vals[v] = r
}

func (g *Gen) freshVal(name string, t types.Type) Val {
	s := g.sortOf(t)
	c := g.declConst(g.fresh(name), s)
	return Val{T: c, S: s, G: t}
}

// ---------- function driver ----------

func (g *Gen) run() {
	fn := g.fn
	g.entry = &State{heaps: map[string]string{}, pend: map[string]string{}}
	g.entry.alloc = g.declConst("alloc@0", "Int")
	g.assumeRaw(sx("<=", fmt.Sprint((g.P.nStatic()+1)*refStride), g.entry.alloc))
	g.cur = "true"
	g.st = g.entry.clone()

	// parameters and free variables
	for _, p := range fn.Params {
		v := g.freshVal("p."+p.Name(), p.Type())
		g.vals[p] = v
		g.assumeRaw(g.typeInv(v, g.entry))
	}
	for _, fv := range fn.FreeVars {
		v := g.freshVal("fv."+fv.Name(), fv.Type())
		g.vals[fv] = v
		g.assumeRaw(g.typeInv(v, g.entry))
		g.assumeRaw(sx("<", "0", v.T))
	}
	// global invariants and preconditions
	env := g.funcEnv(g.entry, g.entry, nil)
	for _, gi := range g.P.cs.Globals {
		genv := *env
		if p := g.P.pkgByName(gi.Pkg); p != nil {
			genv.pkg = p
		}
		if t, ok := genv.tryBool(gi.E); ok {
			g.assumeRaw(t)
		} else if trimPkg(fn.Pkg.Pkg.Path()) == gi.Pkg {
			// must translate at least inside its own package
			genv.boolOf(gi.E)
		}
	}
	if g.ct != nil {
		for _, c := range g.ct.Requires {
			g.assumeRaw(env.boolOf(c.E))
		}
	}
	// vacuity guard: the precondition must be satisfiable
	g.obls = append(g.obls, &Obligation{Name: g.key + "/cover/requires#0", Kind: "cover", Form: "false",
		Pos: g.P.fset.Position(fn.Pos()), Desc: "preconditions are satisfiable (this formula must NOT be valid)"})

	g.heads = loopHeads(fn)
	g.loopOf = map[*ssa.BasicBlock]int{}
	for i, h := range g.heads {
		g.loopOf[h] = i
	}

	type edge struct {
		from  *ssa.BasicBlock
		reach string
		st    *State
	}
	inEdges := map[*ssa.BasicBlock][]edge{}
	order := rpo(fn)
	for _, b := range order {
		var cur string
		var st *State
		if b == fn.Blocks[0] {
			cur, st = "true", g.st
		} else {
			ins := inEdges[b]
			if len(ins) == 0 {
				continue // unreachable (e.g. only back edges / recover block)
			}
			var rs []string
			for _, e := range ins {
				rs = append(rs, e.reach)
			}
			cur = g.define("reach."+fmt.Sprint(b.Index), "Bool", or(rs...))
			// edges that cannot be taken (path variants) do not take part in the merge
			if len(ins) > 1 {
				var live []edge
				for _, e := range ins {
					if e.reach != "false" {
						live = append(live, e)
					}
				}
				if len(live) > 0 && len(live) < len(ins) {
					ins = live
					inEdges[b] = live
				}
			}
			// merge states
			if len(ins) == 1 {
				st = ins[0].st.clone()
			} else {
				st = &State{heaps: map[string]string{}, pend: map[string]string{}}
				keys := map[string]bool{}
				anyAll := false
				for _, e := range ins {
					for k := range e.st.heaps {
						keys[k] = true
					}
					for k := range e.st.pend {
						if _, known := g.heapSort[k]; known {
							keys[k] = true
						}
					}
					if e.st.pendAll != "" {
						anyAll = true
					}
				}
				st.pend = map[string]string{}
				if anyAll {
					for k := range g.heapSort {
						keys[k] = true
					}
					st.pendAll = g.fresh("join")
				}
				for _, e := range ins {
					for k, v := range e.st.pend {
						if _, known := g.heapSort[k]; !known {
							if o, have := st.pend[k]; have && o != v {
								st.pend[k] = g.fresh("join")
							} else if !have {
								st.pend[k] = v
							}
						}
					}
				}
				var ks []string
				for k := range keys {
					ks = append(ks, k)
				}
				sort.Strings(ks)
				for _, k := range ks {
					same := true
					first := g.heap(ins[0].st, k, g.heapSort[k])
					for _, e := range ins[1:] {
						if g.heap(e.st, k, g.heapSort[k]) != first {
							same = false
						}
					}
					if same {
						st.heaps[k] = first
						continue
					}
					// the merged heap is the ite over the incoming edges (a definition,
					// not a fresh constant constrained by implications)
					term := g.heap(ins[len(ins)-1].st, k, g.heapSort[k])
					for j := len(ins) - 2; j >= 0; j-- {
						term = sx("ite", ins[j].reach, g.heap(ins[j].st, k, g.heapSort[k]), term)
					}
					st.heaps[k] = g.define(k+"@b"+fmt.Sprint(b.Index), g.heapSort[k], term)
				}
				same := true
				for _, e := range ins[1:] {
					if e.st.alloc != ins[0].st.alloc {
						same = false
					}
				}
				if same {
					st.alloc = ins[0].st.alloc
				} else {
					n := g.declConst(g.fresh("alloc@b"+fmt.Sprint(b.Index)), "Int")
					for _, e := range ins {
						g.assumeRaw(implies(e.reach, sx("=", n, e.st.alloc)))
					}
					st.alloc = n
				}
			}
		}
		g.cur, g.st = cur, st

		// merges that dominate this block (for case splitting in the solver)
		{
			var sp [][]string
			if id := b.Idom(); id != nil {
				sp = g.blockSplits[id]
			}
			if ins := inEdges[b]; len(ins) > 1 {
				var es []string
				for _, e := range ins {
					es = append(es, e.reach)
				}
				sp = append(append([][]string{}, sp...), es)
			}
			g.blockSplits[b] = sp
			g.curSplits = sp
		}

		_, isHead := g.loopOf[b]
		if !isHead && b.Comment != "recover" {
			g.smokePts = append(g.smokePts, smokePt{fmt.Sprintf("block%d(%s)", b.Index, b.Comment), cur})
		}
		if isHead {
			// loop cut: invariant on entry, havoc, assume invariant
			ord := g.loopOf[b]
			spec := g.loopSpec(ord)
			// 1. inv-init per entry edge
			// Every obligation is decided against the whole script, in which each
			// assumption is guarded by the path condition it was made under. The
			// invariant assumed below must therefore sit under a guard that is false
			// whenever an entry check fails (assert, then assume).
			var initOK []string
			for _, e := range inEdges[b] {
				g.cur, g.st = e.reach, e.st
				g.curPos = b.Instrs[0].Pos()
				ienv := g.loopEnv(b, e.from, e.st)
				var conds []string
				for k, c := range spec.Inv {
					if c.Tier == "thorough" && g.tier != "thorough" {
						continue
					}
					cond := ienv.boolOf(c.E)
					conds = append(conds, cond)
					g.checkNamed("inv-init", fmt.Sprintf("loop%d.%s", ord, clauseName(c, k)), cond, "loop invariant holds on entry: "+c.Src)
				}
				from := e.from
				for _, a := range g.autoInv(b, func(p *ssa.Phi) Val { return g.val(p.Edges[predIndex(b, from)]) }) {
					conds = append(conds, a)
					g.checkNamed("inv-init", fmt.Sprintf("loop%d.auto", ord), a, "range index within bounds on entry")
				}
				if len(conds) > 0 {
					initOK = append(initOK, implies(e.reach, and(conds...)))
				}
			}
			g.cur, g.st = cur, st
			if len(initOK) > 0 {
				// a fresh flag that implies the entry conditions (one direction only, so
				// that quantified invariants occur in the script with positive polarity
				// alone): where an entry check fails the flag, and with it the head's
				// path condition, is false
				ok := g.declConst(g.fresh("initok"), "Bool")
				g.assumeRaw(implies(ok, and(initOK...)))
				cur = g.define("r", "Bool", and(cur, ok))
				g.cur = cur
			}
			// 2. havoc
			ws, wsAll := g.loopWriteSet(b)
			if wsAll {
				for k := range g.heapSort {
					ws[k] = true
				}
				for k := range st.heaps {
					ws[k] = true
				}
			}
			var wl []string
			for k := range ws {
				wl = append(wl, k)
			}
			sort.Strings(wl)
			ltag := g.fresh("loop" + fmt.Sprint(ord))
			if st.pend == nil {
				st.pend = map[string]string{}
			}
			for _, k := range wl {
				if _, ok := g.heapSort[k]; !ok {
					st.pend[k] = ltag // not touched yet: version resolved on first use
					delete(st.heaps, k)
					continue
				}
				st.heaps[k] = g.declConst(k+"@"+ltag, g.heapSort[k])
			}
			if wsAll {
				st.pendAll = ltag
			}
			na := g.declConst(g.fresh("alloc@loop"+fmt.Sprint(ord)), "Int")
			g.assumeRaw(sx("<=", st.alloc, na))
			st.alloc = na
			g.tagAlloc[ltag] = na
			for _, k := range wl {
				if t, ok := st.heaps[k]; ok {
					g.setVerAlloc(k, t, na)
				}
			}
			for _, in := range b.Instrs {
				if phi, ok := in.(*ssa.Phi); ok {
					v := g.freshVal("phi."+phi.Comment, phi.Type())
					g.vals[phi] = v
					g.assume(g.typeInv(v, st))
				}
			}
			g.frameTags[ltag] = true
			g.autoFrame(wl, st)
			henv := g.loopEnv(b, nil, st)
			for _, c := range spec.Inv {
				if c.Tier == "thorough" && g.tier != "thorough" {
					continue
				}
				g.assume(henv.boolOf(c.E))
			}
			for _, a := range g.autoInv(b, func(p *ssa.Phi) Val { return g.vals[p] }) {
				g.assume(a)
			}
			// reachability of the loop head under its invariant
			g.smokePts = append(g.smokePts, smokePt{fmt.Sprintf("loophead%d", ord), g.cur})
		} else {
			// ordinary phis
			for _, in := range b.Instrs {
				phi, ok := in.(*ssa.Phi)
				if !ok {
					continue
				}
				ins := inEdges[b]
				var term string
				var anyLoc *Loc
				for k := len(ins) - 1; k >= 0; k-- {
					e := ins[k]
					idx := predIndex(b, e.from)
					ev := g.val(phi.Edges[idx])
					if ev.Loc != nil {
						anyLoc = ev.Loc
					}
					if term == "" {
						term = ev.T
					} else if ev.T != term {
						term = sx("ite", e.reach, ev.T, term)
					}
				}
				if anyLoc != nil {
					g.bail("phi of unreified addresses (%s)", phi.Name())
				}
				g.set(phi, Val{T: term, S: g.sortOf(phi.Type()), G: phi.Type()})
			}
		}

		// instructions
		for _, in := range b.Instrs {
			if _, ok := in.(*ssa.Phi); ok {
				continue
			}
			if p := in.Pos(); p.IsValid() {
				g.curPos = p
			}
			g.curBlk, g.curIn = b, in
			g.instr(in)
		}
		// successors
		last := b.Instrs[len(b.Instrs)-1]
		addEdge := func(to *ssa.BasicBlock, reach string) {
			if isBackEdge(b, to) {
				// inv-keep
				ord := g.loopOf[to]
				spec := g.loopSpec(ord)
				save := g.cur
				g.cur = reach
				kenv := g.loopEnv(to, b, g.st)
				for k, c := range spec.Inv {
					if c.Tier == "thorough" && g.tier != "thorough" {
						continue
					}
					g.checkNamed("inv-keep", fmt.Sprintf("loop%d.%s", ord, clauseName(c, k)), kenv.boolOf(c.E), "loop invariant is preserved: "+c.Src)
				}
				for _, a := range g.autoInv(to, func(p *ssa.Phi) Val { return g.val(p.Edges[predIndex(to, b)]) }) {
					g.checkNamed("inv-keep", fmt.Sprintf("loop%d.auto", ord), a, "range index stays within bounds")
				}
				g.cur = save
				return
			}
			if g.deadEdge[[2]int{b.Index, to.Index}] {
				// path variant: this edge is not taken in this run (the obligations
				// behind it are checked by the sibling variants)
				reach = "false"
			}
			inEdges[to] = append(inEdges[to], edge{b, g.define("edge", "Bool", reach), g.st})
		}
		switch t := last.(type) {
		case *ssa.If:
			c := g.val(t.Cond)
			st0 := g.st
			g.st = st0.clone()
			addEdge(b.Succs[0], and(g.cur, c.T))
			g.st = st0.clone()
			addEdge(b.Succs[1], and(g.cur, not(c.T)))
		case *ssa.Jump:
			addEdge(b.Succs[0], g.cur)
		}
	}
	// a call-site clause that matched no call: the call the contract talks about is gone
	if g.ct != nil {
		for _, s := range g.ct.Sites {
			if !g.siteHit[s] {
				g.cur = "true"
				g.checkNamed("site", fmt.Sprintf("%s#%d.%s.call-present", s.Callee, s.Ord, clauseName(s.C, 0)), "false", "the contract has a call-site clause for "+s.Callee+" but the function no longer makes that call")
			}
		}
	}
}

func predIndex(b, p *ssa.BasicBlock) int {
	for i, x := range b.Preds {
		if x == p {
			return i
		}
	}
	return -1
}

func clauseName(c *Clause, k int) string {
	if c.Label != "" {
		return c.Label
	}
	return fmt.Sprint(k)
}

func (g *Gen) checkNamed(kind, what, cond, desc string) {
	if kind == "site" {
		// followed by more code on the same path: assert, then assume
		g.check(kind, what, cond, desc)
		return
	}
	// post / inv-keep end their path; inv-init refines the loop head's path
	// condition itself (see the loop cut)
	save := g.cur
	g.noRefine = true
	g.check(kind, what, cond, desc)
	g.noRefine = false
	g.cur = save
}

// autoFrame: at a loop head, objects that existed at function entry are
// unchanged in every heap for which the function has no modifies entry.
// This is not an extra assumption: each write to such a heap carries a frame
// obligation (target fresh or listed), so by induction over the execution no
// entry object of that heap is ever written.
func (g *Gen) autoFrame(heaps []string, st *State) {
	if g.ct == nil || g.ct.ModAll || g.ct.Skip["frame"] {
		return
	}
	listed := map[string]bool{}
	for _, m := range g.ownMods() {
		listed[m.heap] = true
	}
	for _, k := range heaps {
		hs, ok := g.heapSort[k]
		if !ok || listed[k] || strings.HasPrefix(k, "Gh.") || k == "ChanN" || k == "ChanV" || k == "Held" || k == "Closed" || strings.HasPrefix(k, "Map") {
			continue
		}
		cur, ok := st.heaps[k]
		if !ok {
			continue
		}
		ent := g.declConst(k+"@0", hs)
		g.setVerAlloc(k, ent, g.entry.alloc)
		g.assume(fmt.Sprintf("(forall ((r Int)) (! (=> (<= r %s) (= (select %s r) (select %s r))) :pattern ((select %s r))))", g.entry.alloc, cur, ent, cur))
	}
}

// autoInv: structural invariants that need no annotation. For a range loop
// over a slice/array the hidden index stays within [-1, len-1].
func (g *Gen) autoInv(h *ssa.BasicBlock, phiVal func(*ssa.Phi) Val) []string {
	var out []string
	for _, in := range h.Instrs {
		phi, ok := in.(*ssa.Phi)
		if !ok || phi.Comment != "rangeindex" {
			continue
		}
		for _, in2 := range h.Instrs {
			cmp, ok := in2.(*ssa.BinOp)
			if !ok || cmp.Op != token.LSS {
				continue
			}
			add, ok := cmp.X.(*ssa.BinOp)
			if !ok || add.Op != token.ADD || add.X != ssa.Value(phi) {
				continue
			}
			ln, have := g.vals[cmp.Y]
			if _, isC := cmp.Y.(*ssa.Const); isC {
				ln, have = g.val(cmp.Y), true
			}
			if !have {
				continue
			}
			pv := phiVal(phi)
			out = append(out, and(sx("<=", "(- 1)", pv.T), sx("<", pv.T, sx("+", ln.T, "1")), sx("<=", pv.T, sx("-", ln.T, "1"))))
		}
	}
	return out
}

func (g *Gen) loopSpec(ord int) *LoopSpec {
	if g.ct != nil {
		if ls, ok := g.ct.Loops[fmt.Sprint(ord)]; ok {
			return ls
		}
	}
	return &LoopSpec{}
}

// loopWriteSet computes the heaps that may be written inside the loop of head h.
func (g *Gen) loopWriteSet(h *ssa.BasicBlock) (map[string]bool, bool) {
	ws := map[string]bool{}
	all := false
	for b := range loopBlocks(h) {
		for _, in := range b.Instrs {
			switch x := in.(type) {
			case *ssa.Store:
				for _, n := range g.heapsOfAddr(x.Addr) {
					ws[n] = true
				}
			case *ssa.MapUpdate:
				mt := x.Map.Type().Underlying().(*types.Map)
				ws[mapHeapName(mt, "v")] = true
				ws[mapHeapName(mt, "has")] = true
			case *ssa.Send:
				ws["ChanN"] = true
				ws["ChanV"] = true
			case *ssa.UnOp:
				if x.Op == token.ARROW {
					ws["ChanR"] = true
				}
			case *ssa.Select:
				ws["ChanR"] = true
				for _, st := range x.States {
					if st.Dir != types.RecvOnly {
						ws["ChanN"] = true
						ws["ChanV"] = true
					}
				}
			case *ssa.Next:
				if r, ok := x.Iter.(*ssa.Range); ok {
					if mt, ok := r.X.Type().Underlying().(*types.Map); ok {
						ws[mapHeapName(mt, "vis")] = true
					}
				}
			case ssa.CallInstruction:
				names, a := g.calleeWriteHeaps(x.Common())
				if a {
					all = true
				}
				for _, n := range names {
					ws[n] = true
				}
			}
		}
	}
	return ws, all
}

// heapsOfAddr: the heap(s) a store through this address value writes.
func (g *Gen) heapsOfAddr(a ssa.Value) []string {
	pt, ok := a.Type().Underlying().(*types.Pointer)
	if !ok {
		return nil
	}
	switch x := a.(type) {
	case *ssa.FieldAddr:
		st := x.X.Type().Underlying().(*types.Pointer).Elem()
		f := st.Underlying().(*types.Struct).Field(x.Field)
		if _, ok := f.Type().Underlying().(*types.Struct); ok {
			return g.structHeaps(f.Type())
		}
		return []string{fieldHeapName(typeKey(st), f.Name())}
	case *ssa.IndexAddr:
		if _, ok := pt.Elem().Underlying().(*types.Struct); ok {
			// element object of a slice of struct values: its field heaps
			return g.structHeaps(pt.Elem())
		}
		return []string{elemHeapName(pt.Elem())}
	}
	return g.heapsOfPointee(pt.Elem())
}

func (g *Gen) heapsOfPointee(t types.Type) []string {
	switch u := t.Underlying().(type) {
	case *types.Struct:
		return g.structHeaps(t)
	case *types.Array:
		return []string{elemHeapName(u.Elem())}
	}
	return []string{cellHeapName(t)}
}

func (g *Gen) structHeaps(t types.Type) []string {
	var out []string
	s := t.Underlying().(*types.Struct)
	for i := 0; i < s.NumFields(); i++ {
		f := s.Field(i)
		if _, ok := f.Type().Underlying().(*types.Struct); ok {
			out = append(out, g.structHeaps(f.Type())...)
		} else if a, ok := f.Type().Underlying().(*types.Array); ok {
			out = append(out, elemHeapName(a.Elem()))
		} else {
			out = append(out, fieldHeapName(typeKey(t), f.Name()))
		}
	}
	return out
}

// ---------- instructions ----------

func (g *Gen) instr(in ssa.Instruction) {
	switch x := in.(type) {
	case *ssa.DebugRef:
	case *ssa.Alloc:
		g.alloc(x)
	case *ssa.BinOp:
		g.set(x, g.binop(x))
	case *ssa.UnOp:
		g.unop(x)
	case *ssa.Call:
		// a callee that runs its callbacks on other goroutines after it returns
		// (`async-invokes`): the closures passed to it are goroutine bodies
		if ci := g.resolveCallee(x.Common()); ci.ct != nil && ci.ct.AsyncInvokes {
			for _, a := range x.Common().Args {
				if mc, ok := a.(*ssa.MakeClosure); ok {
					g.captureCheck(x, mc)
				}
			}
		}
		r := g.call(x.Common(), x.Pos(), false)
		if r.T != "" || len(r.Tup) > 0 {
			g.set(x, r)
		} else {
			g.vals[x] = Val{T: "0", S: "Int"}
		}
	case *ssa.Go:
		g.assumed = appendUniq(g.assumed, "join rule: `go` statements are executed as calls at the spawn site")
		g.goCaptureCheck(x)
		g.call(x.Common(), x.Pos(), true)
	case *ssa.Defer:
		g.defers = append(g.defers, deferred{cond: g.cur, call: x.Common(), pos: x.Pos()})
	case *ssa.RunDefers:
		ds := g.defers
		for i := len(ds) - 1; i >= 0; i-- {
			g.runDeferred(ds[i])
		}
	case *ssa.ChangeInterface:
		v := g.val(x.X)
		g.set(x, Val{T: v.T, S: v.S, G: x.Type()})
	case *ssa.ChangeType:
		v := g.val(x.X)
		if v.Loc != nil || v.Clo != nil {
			g.vals[x] = v
		} else {
			g.set(x, Val{T: v.T, S: v.S, G: x.Type()})
		}
	case *ssa.Convert:
		g.convert(x)
	case *ssa.Extract:
		t := g.val(x.Tuple)
		if x.Index >= len(t.Tup) {
			g.bail("extract %d of non-tuple %s", x.Index, x.Tuple.Name())
		}
		g.vals[x] = t.Tup[x.Index]
	case *ssa.Field:
		v := g.val(x.X)
		st := x.X.Type().Underlying().(*types.Struct)
		f := st.Field(x.Field)
		g.sortOf(x.X.Type())
		g.set(x, Val{T: sx(q("S."+typeKey(x.X.Type())+"."+f.Name()), v.T), S: g.sortOf(f.Type()), G: f.Type()})
	case *ssa.FieldAddr:
		p := g.val(x.X)
		if p.Loc != nil {
			g.bail("field address of unreified address")
		}
		g.check("nil", srcName(x.X)+"."+fieldName(x), sx("not", sx("=", p.T, "0")), "nil pointer dereference (field "+fieldName(x)+")")
		st := x.X.Type().Underlying().(*types.Pointer).Elem()
		loc, sub := g.fieldLoc(st, x.Field, p.T)
		if loc != nil {
			g.vals[x] = Val{Loc: loc, G: x.Type()}
		} else {
			g.set(x, sub)
		}
	case *ssa.Index:
		v := g.val(x.X)
		i := g.val(x.Index)
		switch u := x.X.Type().Underlying().(type) {
		case *types.Array:
			g.check("idx", "index", and(sx("<=", "0", i.T), sx("<", i.T, fmt.Sprint(u.Len()))), "array index out of range")
			g.set(x, Val{T: sx("select", v.T, i.T), S: g.sortOf(u.Elem()), G: u.Elem()})
		default: // string index
			g.check("idx", "strindex", and(sx("<=", "0", i.T), sx("<", i.T, sx(g.strlenFn(), v.T))), "string index out of range")
			r := g.freshVal("strbyte", x.Type())
			g.assume(g.typeInv(r, g.st))
			g.vals[x] = r
		}
	case *ssa.IndexAddr:
		g.indexAddr(x)
	case *ssa.Lookup:
		g.lookup(x)
	case *ssa.MakeChan:
		r := g.newRef(g.st)
		g.setHeap(g.st, "ChanN", "(Array Int Int)", sx("store", g.heap(g.st, "ChanN", "(Array Int Int)"), r, "0"))
		g.setHeap(g.st, "ChanR", "(Array Int Int)", sx("store", g.heap(g.st, "ChanR", "(Array Int Int)"), r, "0"))
		g.setHeap(g.st, "Closed", "(Array Int Bool)", sx("store", g.heap(g.st, "Closed", "(Array Int Bool)"), r, "false"))
		// the buffer size never changes: an uninterpreted function of the reference
		g.assume(sx("=", sx("chancap", r), g.val(x.Size).T))
		g.set(x, Val{T: r, S: "Int", G: x.Type()})
	case *ssa.MakeClosure:
		r := g.newRef(g.st)
		g.vals[x] = Val{T: r, S: "Int", G: x.Type(), Clo: x}
	case *ssa.MakeInterface:
		v := g.val(x.X)
		g.set(x, Val{T: g.mkIface(x.X.Type(), v), S: "Iface", G: x.Type()})
	case *ssa.MakeMap:
		mt := x.Type().Underlying().(*types.Map)
		r := g.newRef(g.st)
		hs := g.mapHasSort(mt)
		g.setHeap(g.st, mapHeapName(mt, "has"), hs, sx("store", g.heap(g.st, mapHeapName(mt, "has"), hs), r,
			fmt.Sprintf("((as const (Array %s Bool)) false)", g.sortOf(mt.Key()))))
		g.set(x, Val{T: r, S: "Int", G: x.Type()})
	case *ssa.MakeSlice:
		g.makeSlice(x)
	case *ssa.MapUpdate:
		g.mapUpdate(x)
	case *ssa.Next:
		g.next(x)
	case *ssa.Range:
		// map iteration: ghost set of the keys already produced (reset when the
		// iteration starts; one iteration per map at a time)
		if mt, ok := x.X.Type().Underlying().(*types.Map); ok {
			m := g.val(x.X)
			hn, hs := mapHeapName(mt, "vis"), g.mapHasSort(mt)
			g.setHeap(g.st, hn, hs, sx("store", g.heap(g.st, hn, hs), m.T, fmt.Sprintf("((as const (Array %s Bool)) false)", g.sortOf(mt.Key()))))
		}
		g.vals[x] = Val{T: "0", S: "Int"}
	case *ssa.Slice:
		g.sliceOp(x)
	case *ssa.TypeAssert:
		g.typeAssert(x)
	case *ssa.Store:
		g.store(x)
	case *ssa.Send:
		ch := g.val(x.Chan)
		v := g.val(x.X)
		g.check("nil", "send", sx("not", sx("=", ch.T, "0")), "send on nil channel blocks forever")
		if g.ct != nil && g.ct.NonBlockingSends {
			n := sx("select", g.heap(g.st, "ChanN", "(Array Int Int)"), ch.T)
			r := sx("select", g.heap(g.st, "ChanR", "(Array Int Int)"), ch.T)
			g.check("block", "send-finds-room-in-the-buffer", sx("<", sx("-", n, r), sx("chancap", ch.T)), "a plain send on a channel whose buffer may be full blocks (the sender never finishes, a joining Wait never returns)")
		}
		g.chanSend(g.st, ch.T, g.boxAny(v))
	case *ssa.Return:
		g.ret(x)
	case *ssa.Panic:
		if g.ct == nil || !g.ct.MayPanic {
			g.check("panic", "explicit", "false", "explicit panic is reachable")
		}
		g.cur = "false"
	case *ssa.If, *ssa.Jump:
	case *ssa.Select:
		g.selectStmt(x)
	default:
		g.bail("unsupported instruction %T", in)
	}
}

func appendUniq(l []string, s string) []string {
	for _, x := range l {
		if x == s {
			return l
		}
	}
	return append(l, s)
}

func fieldName(x *ssa.FieldAddr) string {
	st := x.X.Type().Underlying().(*types.Pointer).Elem().Underlying().(*types.Struct)
	return st.Field(x.Field).Name()
}

func (g *Gen) strlenFn() string {
	return g.declFun("strlen", []string{"Int"}, "Int")
}

func (g *Gen) alloc(x *ssa.Alloc) {
	et := x.Type().Underlying().(*types.Pointer).Elem()
	r := g.newRef(g.st)
	if isBigIntPtr(x.Type()) {
		g.setHeap(g.st, "BV", "(Array Int Int)", sx("store", g.heap(g.st, "BV", "(Array Int Int)"), r, "0"))
		g.set(x, Val{T: r, S: "Int", G: x.Type()})
		return
	}
	switch u := et.Underlying().(type) {
	case *types.Struct:
		g.zeroStruct(g.st, et, r)
	case *types.Array:
		if localLiteralArray(x) {
			// array literal / variadic argument list: built element by element and
			// then sliced, all in one block. Its content is kept as a local SMT
			// array and written to the heap once, when it is sliced.
			g.pendArr[x] = &pendingArr{ref: r, term: g.zero(et), et: u.Elem()}
			g.set(x, Val{T: r, S: "Int", G: x.Type()})
			return
		}
		hn := elemHeapName(u.Elem())
		es := g.sortOf(u.Elem())
		hs := "(Array Int (Array Int " + es + "))"
		g.setHeap(g.st, hn, hs, sx("store", g.heap(g.st, hn, hs), r, g.zero(et)))
	default:
		g.storeLoc(g.st, g.cellLoc(Val{T: r}, et), g.zero(et))
	}
	g.set(x, Val{T: r, S: "Int", G: x.Type()})
}

type pendingArr struct {
	ref  string
	term string
	et   types.Type
}

// localLiteralArray: an allocated array whose only uses are element
// addresses (stored to / loaded from) and slicing, all in the allocating block.
func localLiteralArray(x *ssa.Alloc) bool {
	if x.Referrers() == nil {
		return false
	}
	nslice := 0
	for _, r := range *x.Referrers() {
		switch u := r.(type) {
		case *ssa.IndexAddr:
			if u.Block() != x.Block() || u.Referrers() == nil {
				return false
			}
			for _, rr := range *u.Referrers() {
				switch w := rr.(type) {
				case *ssa.Store:
					if w.Addr != ssa.Value(u) || w.Block() != x.Block() {
						return false
					}
				case *ssa.UnOp:
					if w.Block() != x.Block() {
						return false
					}
				case *ssa.DebugRef:
				default:
					return false
				}
			}
		case *ssa.Slice:
			if u.Block() != x.Block() {
				return false
			}
			nslice++
		case *ssa.DebugRef:
		default:
			return false
		}
	}
	return nslice == 1
}

// flushPending writes a pending literal array to the heap (once).
func (g *Gen) flushPending(x *ssa.Alloc) {
	p, ok := g.pendArr[x]
	if !ok {
		return
	}
	delete(g.pendArr, x)
	hn := elemHeapName(p.et)
	hs := "(Array Int (Array Int " + g.sortOf(p.et) + "))"
	g.setHeap(g.st, hn, hs, sx("store", g.heap(g.st, hn, hs), p.ref, p.term))
}

func (g *Gen) binop(x *ssa.BinOp) Val {
	a, b := g.val(x.X), g.val(x.Y)
	t := x.Type()
	bt, _ := x.X.Type().Underlying().(*types.Basic)
	res := func(s string) Val { return Val{T: s, S: g.sortOf(t), G: t} }
	switch x.Op {
	case token.EQL, token.NEQ:
		var eq string
		switch {
		case a.Loc != nil || b.Loc != nil:
			g.bail("comparison of unreified addresses")
		case a.S == "Slice":
			// only comparison with nil is legal
			other := a
			if isNilConst(x.X) {
				other = b
			}
			eq = sx("=", sx("s-arr", other.T), "0")
		case a.S == "Iface":
			if isNilConst(x.Y) {
				eq = sx("=", sx("i-typ", a.T), "0")
			} else if isNilConst(x.X) {
				eq = sx("=", sx("i-typ", b.T), "0")
			} else {
				eq = sx("=", a.T, b.T)
			}
		default:
			eq = sx("=", a.T, b.T)
		}
		if x.Op == token.NEQ {
			eq = not(eq)
		}
		return res(eq)
	case token.LSS:
		return res(sx("<", a.T, b.T))
	case token.LEQ:
		return res(sx("<=", a.T, b.T))
	case token.GTR:
		return res(sx(">", a.T, b.T))
	case token.GEQ:
		return res(sx(">=", a.T, b.T))
	}
	if bt == nil {
		g.bail("binop %s on %s", x.Op, x.X.Type())
	}
	if bt.Info()&types.IsString != 0 {
		if x.Op == token.ADD {
			f := g.declFun("strcat", []string{"Int", "Int"}, "Int")
			return res(sx(f, a.T, b.T))
		}
		g.bail("string op %s", x.Op)
	}
	if bt.Info()&types.IsBoolean != 0 {
		switch x.Op {
		case token.AND, token.LAND:
			return res(and(a.T, b.T))
		case token.OR, token.LOR:
			return res(or(a.T, b.T))
		}
	}
	if bt.Info()&types.IsFloat != 0 {
		// floats as reals: multiplication/division by a constant power of two is
		// exact in binary floating point (no overflow/underflow at the magnitudes
		// of converted machine integers); everything else is abstracted
		if c, ok := x.Y.(*ssa.Const); ok && (x.Op == token.QUO || x.Op == token.MUL) {
			if n, ok := constant.Int64Val(constant.ToInt(c.Value)); ok && n > 0 && n&(n-1) == 0 {
				op := "/"
				if x.Op == token.MUL {
					op = "*"
				}
				g.assumed = appendUniq(g.assumed, "float64 values are modelled as real numbers (exact for the integer/2^k values that occur); math.Ceil/Floor as the real ceiling/floor")
				return res(sx(op, a.T, b.T))
			}
		}
		g.unsup = appendUniq(g.unsup, fmt.Sprintf("floating point %s abstracted to an arbitrary value", x.Op))
		return g.freshVal("fop", t)
	}
	if bt.Info()&types.IsInteger == 0 {
		g.bail("arithmetic on %s", bt)
	}
	rt := t.Underlying().(*types.Basic)
	switch x.Op {
	case token.ADD:
		return res(wrap(sx("+", a.T, b.T), rt, true))
	case token.SUB:
		return res(wrap(sx("-", a.T, b.T), rt, true))
	case token.MUL:
		return res(wrap(sx("*", a.T, b.T), rt, false))
	case token.QUO:
		g.check("div0", "quo", not(sx("=", b.T, "0")), "integer division by zero")
		// Go truncates toward zero
		qd := fmt.Sprintf("(ite (>= %s 0) (div %s %s) (- (div (- %s) %s)))", a.T, a.T, b.T, a.T, b.T)
		return res(wrap(qd, rt, true))
	case token.REM:
		g.check("div0", "rem", not(sx("=", b.T, "0")), "integer division by zero")
		rm := fmt.Sprintf("(ite (>= %s 0) (mod %s %s) (- (mod (- %s) %s)))", a.T, a.T, b.T, a.T, b.T)
		return res(rm)
	case token.SHL:
		if c, ok := x.Y.(*ssa.Const); ok {
			if n, ok := constant.Int64Val(c.Value); ok && n < 64 {
				return res(wrap(sx("*", a.T, fmt.Sprint(uint64(1)<<uint(n))), rt, false))
			}
		}
	case token.SHR:
		if c, ok := x.Y.(*ssa.Const); ok {
			if n, ok := constant.Int64Val(c.Value); ok && n < 63 {
				return res(sx("div", a.T, fmt.Sprint(uint64(1)<<uint(n))))
			}
		}
	case token.AND:
		if c, ok := x.Y.(*ssa.Const); ok {
			if n, ok := constant.Int64Val(c.Value); ok && n > 0 && (n&(n+1)) == 0 {
				return res(sx("mod", a.T, fmt.Sprint(n+1)))
			}
		}
	case token.OR, token.XOR, token.AND_NOT:
		if c, ok := x.Y.(*ssa.Const); ok {
			if n, ok := constant.Int64Val(c.Value); ok && n > 0 && (n&(n-1)) == 0 {
				// single-bit constant: bit k of a
				bit := sx("mod", sx("div", a.T, fmt.Sprint(n)), "2")
				switch x.Op {
				case token.OR:
					return res(sx("ite", sx("=", bit, "1"), a.T, wrap(sx("+", a.T, fmt.Sprint(n)), rt, true)))
				case token.XOR:
					return res(sx("ite", sx("=", bit, "1"), sx("-", a.T, fmt.Sprint(n)), wrap(sx("+", a.T, fmt.Sprint(n)), rt, true)))
				case token.AND_NOT:
					return res(sx("ite", sx("=", bit, "1"), sx("-", a.T, fmt.Sprint(n)), a.T))
				}
			}
		}
	}
	// variable shift counts: a << n = a * 2^n (0 once n reaches the width), a >> n
	// = a div 2^n for non-negative a; 2^n is a 64-way case split on n
	if x.Op == token.SHL || x.Op == token.SHR {
		if cb, ok := x.Y.Type().Underlying().(*types.Basic); ok {
			if _, signed := intBits(cb); signed {
				g.check("panic", "shift", sx("<=", "0", b.T), "negative shift amount")
			}
		}
		p2 := sx(g.pow2cFn(), b.T)
		bits, signed := intBits(rt)
		if x.Op == token.SHL {
			return res(sx("ite", sx("<", b.T, fmt.Sprint(bits)), wrap(sx("*", a.T, p2), rt, false), "0"))
		}
		if !signed {
			return res(sx("ite", sx("<", b.T, fmt.Sprint(bits)), sx("div", a.T, p2), "0"))
		}
	}
	// 8-bit operands: bitwise as a sum over the eight bit positions
	if bits, signed := intBits(rt); bits == 8 && !signed && (x.Op == token.AND || x.Op == token.OR || x.Op == token.XOR || x.Op == token.AND_NOT) {
		var terms []string
		for i := 0; i < 8; i++ {
			w := fmt.Sprint(1 << uint(i))
			ba := sx("=", sx("mod", sx("div", a.T, w), "2"), "1")
			bb := sx("=", sx("mod", sx("div", b.T, w), "2"), "1")
			var c string
			switch x.Op {
			case token.AND:
				c = and(ba, bb)
			case token.OR:
				c = or(ba, bb)
			case token.XOR:
				c = sx("xor", ba, bb)
			case token.AND_NOT:
				c = and(ba, not(bb))
			}
			terms = append(terms, sx("ite", c, w, "0"))
		}
		return res(g.define("bits8", "Int", sx("+", terms...)))
	}
	// unmodelled bit operation: arbitrary value of the result type
	g.unsup = appendUniq(g.unsup, fmt.Sprintf("bit operation %s abstracted to an arbitrary %s", x.Op, t))
	r := g.freshVal("bitop", t)
	g.assume(g.typeInv(r, g.st))
	return r
}

func isNilConst(v ssa.Value) bool {
	c, ok := v.(*ssa.Const)
	return ok && c.Value == nil
}

func (g *Gen) unop(x *ssa.UnOp) {
	switch x.Op {
	case token.NOT:
		g.set(x, Val{T: not(g.val(x.X).T), S: "Bool", G: x.Type()})
	case token.SUB:
		v := g.val(x.X)
		if bt, ok := x.Type().Underlying().(*types.Basic); ok && bt.Info()&types.IsInteger != 0 {
			g.set(x, Val{T: wrap(sx("-", v.T), bt, true), S: "Int", G: x.Type()})
			return
		}
		g.bail("negation of %s", x.Type())
	case token.XOR:
		v := g.val(x.X)
		bt := x.Type().Underlying().(*types.Basic)
		_, signed := intBits(bt)
		if signed {
			g.set(x, Val{T: sx("-", sx("-", v.T), "1"), S: "Int", G: x.Type()})
		} else {
			_, hi := intRange(bt)
			g.set(x, Val{T: sx("-", hi, v.T), S: "Int", G: x.Type()})
		}
	case token.MUL:
		g.load(x)
	case token.ARROW:
		// receive: the k-th receive on a channel yields the k-th value sent on it
		// (goroutines are joined where they are started, so every send has
		// happened). A plain receive with nothing left would block, not panic;
		// with ",ok" (and in a range loop) ok reports whether a value was left.
		ch := g.val(x.X)
		et := x.X.Type().Underlying().(*types.Chan).Elem()
		rh := g.heap(g.st, "ChanR", "(Array Int Int)")
		cur := g.define("rcur", "Int", sx("select", rh, ch.T))
		n := sx("select", g.heap(g.st, "ChanN", "(Array Int Int)"), ch.T)
		avail := g.define("ravail", "Bool", and(not(sx("=", ch.T, "0")), sx("<", cur, n)))
		es := g.sortOf(et)
		v := g.freshVal("recv", et)
		if es != "" {
			boxed := sx("select", sx("select", g.heap(g.st, "ChanV", "(Array Int (Array Int Int))"), ch.T), cur)
			g.assume(implies(avail, sx("=", v.T, g.unboxAny(boxed, es))))
		}
		g.assume(g.typeInv(v, g.st))
		if x.CommaOk {
			ok := Val{T: avail, S: "Bool", G: types.Typ[types.Bool]}
			g.vals[x] = Val{Tup: []Val{v, ok}}
		} else {
			g.assume(avail)
			g.vals[x] = v
		}
		g.setHeap(g.st, "ChanR", "(Array Int Int)", sx("store", rh, ch.T, sx("ite", avail, sx("+", cur, "1"), cur)))
	default:
		g.bail("unary op %s", x.Op)
	}
}

func (g *Gen) load(x *ssa.UnOp) {
	p := g.val(x.X)
	et := x.Type()
	if p.Loc != nil {
		v := g.loadLoc(g.st, p.Loc)
		v.G = et
		g.set(x, v)
		g.assumeLoaded(g.vals[x], p.Loc)
		return
	}
	g.check("nil", "load."+srcName(x.X), not(sx("=", p.T, "0")), "nil pointer dereference")
	switch u := et.Underlying().(type) {
	case *types.Struct:
		g.set(x, Val{T: g.loadStruct(g.st, et, p.T), S: g.sortOf(et), G: et})
	case *types.Array:
		hn := elemHeapName(u.Elem())
		hs := "(Array Int (Array Int " + g.sortOf(u.Elem()) + "))"
		g.set(x, Val{T: sx("select", g.heap(g.st, hn, hs), p.T), S: g.sortOf(et), G: et})
	default:
		l := g.cellLoc(p, et)
		v := g.loadLoc(g.st, l)
		g.set(x, v)
		g.assumeLoaded(g.vals[x], l)
	}
}

// assumeLoaded: type invariant of a loaded value. References read from a
// heap version that has not been written since it was introduced (function
// entry, loop head, call return) were allocated when that version was
// introduced -- provided the object read from existed then (objects allocated
// later by callees live above that counter and may hold newer references).
func (g *Gen) assumeLoaded(v Val, l *Loc) {
	g.assume(g.typeInv(v, g.st))
	root := l
	for root.Kind == LSub {
		root = root.Parent
	}
	t, ok := g.st.heaps[root.Heap]
	if !ok {
		t = g.heap(g.st, root.Heap, g.heapSort[root.Heap])
	}
	a, ok := g.verAlloc[t]
	if !ok || a == g.st.alloc || v.G == nil {
		return
	}
	var ref string
	switch v.G.Underlying().(type) {
	case *types.Pointer, *types.Map, *types.Chan, *types.Signature:
		ref = v.T
	case *types.Slice:
		ref = sx("s-arr", v.T)
	default:
		return
	}
	g.assume(implies(sx("<=", root.Base, a), sx("<=", ref, a)))
}

func (g *Gen) store(x *ssa.Store) {
	p := g.val(x.Addr)
	v := g.val(x.Val)
	if v.Loc != nil {
		g.bail("storing an unreified address")
	}
	et := x.Addr.Type().Underlying().(*types.Pointer).Elem()
	if p.Loc != nil {
		root := p.Loc
		for root.Kind == LSub {
			root = root.Parent
		}
		if root.Kind != LPend {
			g.frameCheck(root.Heap, root.Base, root.Idx, root.Kind)
		}
		g.storeLoc(g.st, p.Loc, v.T)
		return
	}
	g.check("nil", "store", not(sx("=", p.T, "0")), "nil pointer dereference (store)")
	switch u := et.Underlying().(type) {
	case *types.Struct:
		g.frameCheck("struct:"+typeKey(et), p.T, "", LCell)
		g.storeStruct(g.st, et, p.T, v.T)
	case *types.Array:
		hn := elemHeapName(u.Elem())
		hs := "(Array Int (Array Int " + g.sortOf(u.Elem()) + "))"
		g.frameCheck(hn, p.T, "", LCell)
		g.setHeap(g.st, hn, hs, sx("store", g.heap(g.st, hn, hs), p.T, v.T))
	default:
		l := g.cellLoc(p, et)
		g.frameCheck(l.Heap, p.T, "", LCell)
		g.storeLoc(g.st, l, v.T)
	}
}

func (g *Gen) indexAddr(x *ssa.IndexAddr) {
	v := g.val(x.X)
	i := g.val(x.Index)
	switch u := x.X.Type().Underlying().(type) {
	case *types.Slice:
		g.check("idx", srcName(x.X), and(sx("<=", "0", i.T), sx("<", i.T, sx("s-len", v.T))), "slice index out of range")
		if st, ok := u.Elem().Underlying().(*types.Struct); ok {
			// Elements of a slice of struct values are objects of their own, laid out
			// behind the backing array: element k of array a is the object selem(a, k)
			// = a + 1 + k (allocations are 2^20 apart, sub-objects live below their
			// owner, so these references are free). Only flat structs (no embedded
			// struct or array fields, which would need sub-objects) are supported.
			for fi := 0; fi < st.NumFields(); fi++ {
				switch st.Field(fi).Type().Underlying().(type) {
				case *types.Struct, *types.Array:
					g.bail("slice of struct values with nested struct/array fields")
				}
			}
			ref := sx("selem", sx("s-arr", v.T), sx("idx", sx("s-off", v.T), i.T))
			g.vals[x] = Val{T: g.define("selem", "Int", ref), S: "Int", G: x.Type()}
			return
		}
		g.vals[x] = Val{Loc: &Loc{Kind: LElem, Heap: elemHeapName(u.Elem()), Base: sx("s-arr", v.T),
			Idx: sx("idx", sx("s-off", v.T), i.T), S: g.sortOf(u.Elem()), G: u.Elem()}, G: x.Type()}
	case *types.Pointer:
		at := u.Elem().Underlying().(*types.Array)
		if al, ok := x.X.(*ssa.Alloc); ok {
			if p, pending := g.pendArr[al]; pending {
				g.check("idx", srcName(x.X), and(sx("<=", "0", i.T), sx("<", i.T, fmt.Sprint(at.Len()))), "array index out of range")
				g.vals[x] = Val{Loc: &Loc{Kind: LPend, pend: p, Idx: i.T, S: g.sortOf(at.Elem()), G: at.Elem(), Base: p.ref, Heap: elemHeapName(at.Elem())}, G: x.Type()}
				return
			}
		}
		if v.Loc != nil {
			// array stored inside a field/cell: element of the array value
			g.check("idx", srcName(x.X), and(sx("<=", "0", i.T), sx("<", i.T, fmt.Sprint(at.Len()))), "array index out of range")
			g.vals[x] = Val{Loc: &Loc{Kind: LSub, Parent: v.Loc, Idx: i.T, Heap: v.Loc.Heap, Base: v.Loc.Base, S: g.sortOf(at.Elem()), G: at.Elem()}, G: x.Type()}
			return
		}
		g.check("nil", "arrayptr", not(sx("=", v.T, "0")), "nil array pointer")
		g.check("idx", srcName(x.X), and(sx("<=", "0", i.T), sx("<", i.T, fmt.Sprint(at.Len()))), "array index out of range")
		g.vals[x] = Val{Loc: &Loc{Kind: LElem, Heap: elemHeapName(at.Elem()), Base: v.T, Idx: i.T, S: g.sortOf(at.Elem()), G: at.Elem()}, G: x.Type()}
	default:
		g.bail("IndexAddr on %s", x.X.Type())
	}
}

func (g *Gen) makeSlice(x *ssa.MakeSlice) {
	l, c := g.val(x.Len), g.val(x.Cap)
	et := x.Type().Underlying().(*types.Slice).Elem()
	g.check("lib-pre", "makeslice", and(sx("<=", "0", l.T), sx("<=", l.T, c.T), sx("<=", c.T, "4611686018427387904")), "make: length negative or above capacity")
	r := g.newRef(g.st)
	if st, ok := et.Underlying().(*types.Struct); ok {
		// slice of struct values: every element object starts zeroed (see indexAddr);
		// modelling bound: fewer than 2^20 - 1 elements
		g.assume(sx("<", c.T, "1048575"))
		for _, h := range g.structHeapsSorted(et) {
			hh := g.heap(g.st, h.name, "(Array Int "+h.sort+")")
			nh := g.declConst(g.fresh(h.name+"@mk"), "(Array Int "+h.sort+")")
			var z string
			for fi := 0; fi < st.NumFields(); fi++ {
				if fieldHeapName(typeKey(et), st.Field(fi).Name()) == h.name {
					z = g.zero(st.Field(fi).Type())
				}
			}
			if z == "" {
				g.bail("slice of struct values: unexpected heap %s", h.name)
			}
			g.assumeRaw(fmt.Sprintf("(forall ((k Int)) (! (=> (and (<= 0 k) (< k %s)) (= (select %s (selem %s k)) %s)) :pattern ((select %s (selem %s k)))))", c.T, nh, r, z, nh, r))
			g.assumeRaw(fmt.Sprintf("(forall ((q Int)) (! (=> (or (<= q %s) (> q (+ %s 1 %s))) (= (select %s q) (select %s q))) :pattern ((select %s q))))", r, r, c.T, nh, hh, nh))
			g.setHeap(g.st, h.name, "(Array Int "+h.sort+")", nh)
		}
		g.set(x, Val{T: sx("mk-slice", r, "0", l.T, c.T), S: "Slice", G: x.Type()})
		return
	}
	hn := elemHeapName(et)
	es := g.sortOf(et)
	hs := "(Array Int (Array Int " + es + "))"
	g.setHeap(g.st, hn, hs, sx("store", g.heap(g.st, hn, hs), r, fmt.Sprintf("((as const (Array Int %s)) %s)", es, g.zero(et))))
	g.set(x, Val{T: sx("mk-slice", r, "0", l.T, c.T), S: "Slice", G: x.Type()})
}

func (g *Gen) sliceOp(x *ssa.Slice) {
	v := g.val(x.X)
	var lo, hi, max string
	if x.Low != nil {
		lo = g.val(x.Low).T
	} else {
		lo = "0"
	}
	switch u := x.X.Type().Underlying().(type) {
	case *types.Slice:
		ln, cp := sx("s-len", v.T), sx("s-cap", v.T)
		if x.High != nil {
			hi = g.val(x.High).T
		} else {
			hi = ln
		}
		if x.Max != nil {
			max = g.val(x.Max).T
		} else {
			max = cp
		}
		g.check("slice", srcName(x.X), and(sx("<=", "0", lo), sx("<=", lo, hi), sx("<=", hi, max), sx("<=", max, cp)), "slice bounds out of range")
		g.set(x, Val{T: sx("mk-slice", sx("s-arr", v.T), sx("+", sx("s-off", v.T), lo), sx("-", hi, lo), sx("-", max, lo)), S: "Slice", G: x.Type()})
	case *types.Pointer:
		at := u.Elem().Underlying().(*types.Array)
		if al, ok := x.X.(*ssa.Alloc); ok {
			g.flushPending(al)
		}
		n := fmt.Sprint(at.Len())
		if x.High != nil {
			hi = g.val(x.High).T
		} else {
			hi = n
		}
		if x.Max != nil {
			max = g.val(x.Max).T
		} else {
			max = n
		}
		g.check("nil", "arrayptr", not(sx("=", v.T, "0")), "nil array pointer")
		g.check("slice", srcName(x.X), and(sx("<=", "0", lo), sx("<=", lo, hi), sx("<=", hi, max), sx("<=", max, n)), "slice bounds out of range")
		g.set(x, Val{T: sx("mk-slice", v.T, lo, sx("-", hi, lo), sx("-", max, lo)), S: "Slice", G: x.Type()})
	case *types.Basic: // string
		ln := sx(g.strlenFn(), v.T)
		if x.High != nil {
			hi = g.val(x.High).T
		} else {
			hi = ln
		}
		g.check("slice", "strbounds", and(sx("<=", "0", lo), sx("<=", lo, hi), sx("<=", hi, ln)), "string slice bounds out of range")
		f := g.declFun("substr", []string{"Int", "Int", "Int"}, "Int")
		r := sx(f, v.T, lo, hi)
		g.set(x, Val{T: r, S: "Int", G: x.Type()})
		g.assume(and(sx("<=", "0", g.vals[x].T), sx("=", sx(g.strlenFn(), g.vals[x].T), sx("-", hi, lo))))
	default:
		g.bail("slice of %s", x.X.Type())
	}
}

func (g *Gen) convert(x *ssa.Convert) {
	v := g.val(x.X)
	from, to := x.X.Type().Underlying(), x.Type().Underlying()
	fb, fok := from.(*types.Basic)
	tb, tok := to.(*types.Basic)
	switch {
	case fok && tok && fb.Info()&types.IsInteger != 0 && tb.Info()&types.IsInteger != 0:
		fbits, fs := intBits(fb)
		tbits, ts := intBits(tb)
		if (fs == ts && tbits >= fbits) || (!fs && ts && tbits > fbits) {
			g.set(x, Val{T: v.T, S: "Int", G: x.Type()})
			return
		}
		near := tbits >= fbits
		g.set(x, Val{T: wrap(v.T, tb, near), S: "Int", G: x.Type()})
	case fok && tok && fb.Info()&types.IsString != 0 && tb.Info()&types.IsString != 0:
		g.set(x, Val{T: v.T, S: "Int", G: x.Type()})
	case tok && tb.Info()&types.IsString != 0:
		// string(bytes) / string(rune): uninterpreted
		if v.S == "Slice" {
			f := g.declFun("bytes2str", []string{"(Array Int Int)", "Int", "Int"}, "Int")
			hn := elemHeapName(from.(*types.Slice).Elem())
			h := g.heap(g.st, hn, "(Array Int (Array Int Int))")
			g.set(x, Val{T: sx(f, sx("select", h, sx("s-arr", v.T)), sx("s-off", v.T), sx("s-len", v.T)), S: "Int", G: x.Type()})
			g.assume(and(sx("<=", "0", g.vals[x].T), sx("=", sx(g.strlenFn(), g.vals[x].T), sx("s-len", v.T))))
		} else {
			r := g.freshVal("str", x.Type())
			g.assume(g.typeInv(r, g.st))
			g.vals[x] = r
		}
	case fok && fb.Info()&types.IsString != 0:
		// []byte(string): fresh slice with the string's length
		et := to.(*types.Slice).Elem()
		r := g.newRef(g.st)
		ln := sx(g.strlenFn(), v.T)
		g.assume(and(sx("<=", "0", ln), sx("<=", ln, "281474976710656")))
		hn := elemHeapName(et)
		hs := "(Array Int (Array Int Int))"
		f := g.declFun("str2bytes", []string{"Int"}, "(Array Int Int)")
		g.setHeap(g.st, hn, hs, sx("store", g.heap(g.st, hn, hs), r, sx(f, v.T)))
		g.set(x, Val{T: sx("mk-slice", r, "0", ln, ln), S: "Slice", G: x.Type()})
	case fok && tok && fb.Info()&types.IsInteger != 0 && tb.Kind() == types.Float64:
		// exact below 2^53; arbitrary above (rounding not modelled)
		r := g.freshVal("fconv", x.Type())
		g.assume(implies(and(sx("<=", "(- 9007199254740992)", v.T), sx("<=", v.T, "9007199254740992")), sx("=", r.T, sx("to_real", v.T))))
		g.vals[x] = r
	case fok && tok && fb.Kind() == types.Float64 && tb.Info()&types.IsInteger != 0:
		// truncation toward zero when the result fits; otherwise implementation-defined
		r := g.freshVal("fconv", x.Type())
		g.assume(g.typeInv(r, g.st))
		tr := g.define("ftrunc", "Int", fmt.Sprintf("(ite (>= %s 0.0) (to_int %s) (- (to_int (- %s))))", v.T, v.T, v.T))
		lo, hi := intRange(tb)
		g.assume(implies(and(sx("<=", lo, tr), sx("<=", tr, hi)), sx("=", r.T, tr)))
		g.vals[x] = r
	case fok && tok && (fb.Info()&types.IsFloat != 0 || tb.Info()&types.IsFloat != 0):
		r := g.freshVal("fconv", x.Type())
		g.assume(g.typeInv(r, g.st))
		g.vals[x] = r
		g.unsup = appendUniq(g.unsup, "floating point conversion abstracted")
	default:
		// pointer <-> unsafe etc.
		g.set(x, Val{T: v.T, S: g.sortOf(x.Type()), G: x.Type()})
	}
}

// ---------- interfaces ----------

func (g *Gen) boxFn(sort string) (string, string) {
	b := g.declFun("box."+sort, []string{sort}, "Int")
	u := g.declFun("unbox."+sort, []string{"Int"}, sort)
	ax := "boxax." + sort
	if !g.declared[ax] {
		g.declared[ax] = true
		g.emit(fmt.Sprintf("(assert (forall ((x %s)) (! (= (%s (%s x)) x) :pattern ((%s x)))))", sort, u, b, b))
	}
	return b, u
}

func (g *Gen) mkIface(t types.Type, v Val) string {
	if _, ok := t.Underlying().(*types.Interface); ok {
		return v.T
	}
	tag := fmt.Sprint(g.P.typeTag(t))
	switch t.Underlying().(type) {
	case *types.Pointer, *types.Map, *types.Chan, *types.Signature:
		return sx("mk-iface", tag, v.T)
	}
	b, _ := g.boxFn(v.S)
	return sx("mk-iface", tag, sx(b, v.T))
}

// boxAny encodes any value as an Int (for ghost channel contents).
func (g *Gen) boxAny(v Val) string {
	if v.S == "Int" {
		return v.T
	}
	b, _ := g.boxFn(v.S)
	return sx(b, v.T)
}

func (g *Gen) unboxAny(t string, sort string) string {
	if sort == "Int" {
		return t
	}
	_, u := g.boxFn(sort)
	return sx(u, t)
}

func (g *Gen) ifacePayload(t types.Type, iface string) Val {
	s := g.sortOf(t)
	switch t.Underlying().(type) {
	case *types.Pointer, *types.Map, *types.Chan, *types.Signature:
		return Val{T: sx("i-val", iface), S: "Int", G: t}
	}
	_, u := g.boxFn(s)
	return Val{T: sx(u, sx("i-val", iface)), S: s, G: t}
}

func (g *Gen) implementsFn(it types.Type) string {
	return g.declFun("implements."+typeKey(it), []string{"Int"}, "Bool")
}

func (g *Gen) typeAssert(x *ssa.TypeAssert) {
	v := g.val(x.X)
	var ok string
	var res Val
	if _, isIface := x.AssertedType.Underlying().(*types.Interface); isIface {
		f := g.implementsFn(x.AssertedType)
		ok = and(not(sx("=", sx("i-typ", v.T), "0")), sx(f, sx("i-typ", v.T)))
		// static knowledge: if the operand's static type already implements the target, any non-nil value does
		if types.Implements(x.X.Type(), x.AssertedType.Underlying().(*types.Interface)) {
			ok = not(sx("=", sx("i-typ", v.T), "0"))
		}
		res = Val{T: v.T, S: "Iface", G: x.AssertedType}
	} else {
		ok = sx("=", sx("i-typ", v.T), fmt.Sprint(g.P.typeTag(x.AssertedType)))
		res = g.ifacePayload(x.AssertedType, v.T)
	}
	if x.CommaOk {
		okv := Val{T: g.define("taok", "Bool", ok), S: "Bool", G: types.Typ[types.Bool]}
		z := g.zeroOfSort(res.S, x.AssertedType)
		res.T = g.define("tav", res.S, sx("ite", okv.T, res.T, z))
		g.vals[x] = Val{Tup: []Val{res, okv}}
		return
	}
	g.check("tassert", typeKey(x.AssertedType), ok, "type assertion to "+typeKey(x.AssertedType)+" may fail")
	g.set(x, res)
	g.assume(g.typeInv(g.vals[x], g.st))
}

// ---------- maps ----------

func mapHeapName(mt *types.Map, part string) string {
	return "Map" + part + "." + typeKey(mt.Key()) + "." + typeKey(mt.Elem())
}

func (g *Gen) mapHasSort(mt *types.Map) string {
	return "(Array Int (Array " + g.sortOf(mt.Key()) + " Bool))"
}
func (g *Gen) mapValSort(mt *types.Map) string {
	return "(Array Int (Array " + g.sortOf(mt.Key()) + " " + g.sortOf(mt.Elem()) + "))"
}

func (g *Gen) lookup(x *ssa.Lookup) {
	m := g.val(x.X)
	k := g.val(x.Index)
	mt, ok := x.X.Type().Underlying().(*types.Map)
	if !ok {
		// string indexing
		g.check("idx", "strindex", and(sx("<=", "0", k.T), sx("<", k.T, sx(g.strlenFn(), m.T))), "string index out of range")
		r := g.freshVal("strbyte", x.Type())
		g.assume(g.typeInv(r, g.st))
		g.vals[x] = r
		return
	}
	has := sx("select", sx("select", g.heap(g.st, mapHeapName(mt, "has"), g.mapHasSort(mt)), m.T), k.T)
	has = and(not(sx("=", m.T, "0")), has)
	val := sx("select", sx("select", g.heap(g.st, mapHeapName(mt, "v"), g.mapValSort(mt)), m.T), k.T)
	vs := g.sortOf(mt.Elem())
	rv := Val{T: g.define("mv", vs, sx("ite", has, val, g.zero(mt.Elem()))), S: vs, G: mt.Elem()}
	g.assume(g.typeInv(rv, g.st))
	if x.CommaOk {
		g.vals[x] = Val{Tup: []Val{rv, {T: g.define("mok", "Bool", has), S: "Bool", G: types.Typ[types.Bool]}}}
	} else {
		g.vals[x] = rv
	}
}

// next: one step of a range over a map (or string). For a map the iteration
// produces each key exactly once: ok ==> the key is in the map and was not
// produced before; !ok ==> every key of the map has been produced.
func (g *Gen) next(x *ssa.Next) {
	tt := x.Type().(*types.Tuple)
	var tup []Val
	for i := 0; i < tt.Len(); i++ {
		if bt, inv := tt.At(i).Type().(*types.Basic); inv && bt.Kind() == types.Invalid {
			tup = append(tup, Val{T: "0", S: "Int"})
			continue
		}
		v := g.freshVal("next", tt.At(i).Type())
		g.assume(g.typeInv(v, g.st))
		tup = append(tup, v)
	}
	g.vals[x] = Val{Tup: tup}
	r, ok := x.Iter.(*ssa.Range)
	if !ok || x.IsString {
		return
	}
	mt, ok := r.X.Type().Underlying().(*types.Map)
	if !ok || tup[1].S == "" || tup[1].T == "0" {
		return
	}
	m := g.val(r.X)
	okv, key := tup[0].T, tup[1].T
	hs := g.mapHasSort(mt)
	has := sx("select", g.heap(g.st, mapHeapName(mt, "has"), hs), m.T)
	visH := g.heap(g.st, mapHeapName(mt, "vis"), hs)
	vis := sx("select", visH, m.T)
	g.assume(implies(okv, and(not(sx("=", m.T, "0")), sx("select", has, key), not(sx("select", vis, key)))))
	ks := g.sortOf(mt.Key())
	hasC := g.define("mhas", "(Array "+ks+" Bool)", has)
	visC := g.define("mvis", "(Array "+ks+" Bool)", vis)
	g.assume(implies(not(okv), fmt.Sprintf("(forall ((k %s)) (! (=> (select %s k) (select %s k)) :pattern ((select %s k))))", ks, hasC, visC, hasC)))
	if len(tup) > 2 && tup[2].S != "" && tup[2].T != "0" {
		val := sx("select", sx("select", g.heap(g.st, mapHeapName(mt, "v"), g.mapValSort(mt)), m.T), key)
		g.assume(implies(okv, sx("=", tup[2].T, val)))
	}
	g.setHeap(g.st, mapHeapName(mt, "vis"), hs, sx("store", visH, m.T, sx("ite", okv, sx("store", vis, key, "true"), vis)))
}

func (g *Gen) mapUpdate(x *ssa.MapUpdate) {
	m := g.val(x.Map)
	k := g.val(x.Key)
	v := g.val(x.Value)
	mt := x.Map.Type().Underlying().(*types.Map)
	g.check("nil", "mapupdate", not(sx("=", m.T, "0")), "assignment to entry in nil map")
	g.frameCheck(mapHeapName(mt, "v"), m.T, "", LCell)
	hh, hs := mapHeapName(mt, "has"), g.mapHasSort(mt)
	vh, vs := mapHeapName(mt, "v"), g.mapValSort(mt)
	h := g.heap(g.st, hh, hs)
	g.setHeap(g.st, hh, hs, sx("store", h, m.T, sx("store", sx("select", h, m.T), k.T, "true")))
	hv := g.heap(g.st, vh, vs)
	g.setHeap(g.st, vh, vs, sx("store", hv, m.T, sx("store", sx("select", hv, m.T), k.T, v.T)))
}

// ---------- channels (ghost) ----------

func (g *Gen) chanSend(st *State, ch, boxed string) {
	n := g.heap(st, "ChanN", "(Array Int Int)")
	vs := g.heap(st, "ChanV", "(Array Int (Array Int Int))")
	cnt := sx("select", n, ch)
	g.setHeap(st, "ChanV", "(Array Int (Array Int Int))", sx("store", vs, ch, sx("store", sx("select", vs, ch), cnt, boxed)))
	g.setHeap(st, "ChanN", "(Array Int Int)", sx("store", n, ch, sx("+", cnt, "1")))
}

// ---------- return ----------

func (g *Gen) ret(x *ssa.Return) {
	g.retReach = append(g.retReach, g.cur)
	g.smokePts = append(g.smokePts, smokePt{fmt.Sprintf("return@%s", trimPkgPos(g.P.fset.Position(x.Pos()).String())), g.cur})
	if g.ct == nil {
		g.cur = "false"
		return
	}
	var res []Val
	for _, r := range x.Results {
		res = append(res, g.val(r))
	}
	env := g.funcEnv(g.st, g.entry, res)
	for k, c := range g.ct.Ensures {
		if (c.Tier == "thorough" && g.tier != "thorough") || c.Assumed {
			continue
		}
		g.checkNamed("post", clauseName(c, k), env.boolOf(c.E), "postcondition: "+c.Src)
	}
	g.cur = "false"
}

func trimPkg(s string) string {
	return strings.ReplaceAll(s, "github.com/bnb-chain/tss-lib/v2/", "")
}

// srcName gives a stable, source-level hint for a value (used in obligation
// names so that they do not depend on SSA register numbers).
func srcName(v ssa.Value) string {
	switch x := v.(type) {
	case *ssa.Parameter:
		return x.Name()
	case *ssa.FreeVar:
		return x.Name()
	case *ssa.Global:
		return x.Name()
	case *ssa.Phi:
		return x.Comment
	case *ssa.Alloc:
		return x.Comment
	case *ssa.FieldAddr:
		return fieldName(x)
	case *ssa.UnOp:
		return srcName(x.X)
	case *ssa.Slice:
		return srcName(x.X)
	case *ssa.TypeAssert:
		return srcName(x.X)
	case *ssa.ChangeType:
		return srcName(x.X)
	case *ssa.Convert:
		return srcName(x.X)
	case *ssa.IndexAddr:
		return srcName(x.X)
	case *ssa.Extract:
		return srcName(x.Tuple)
	case *ssa.Call:
		if f := x.Common().StaticCallee(); f != nil {
			return f.Name() + "()"
		}
		if x.Common().IsInvoke() {
			return x.Common().Method.Name() + "()"
		}
	case *ssa.MakeSlice:
		return "make"
	}
	return "_"
}

func realLit(n string) string {
	if strings.HasPrefix(n, "-") {
		return "(- " + n[1:] + ".0)"
	}
	return n + ".0"
}

// selectStmt: a select whose cases are all receives. The chosen case is
// arbitrary (-1, the default, only for a non-blocking select); a receive case
// can be chosen only if a value is left on its channel (it then yields the
// next value sent, as a plain receive does) or the channel has been closed
// (zero value, ok false). This over-approximates every scheduling of the
// senders that have run (join rule).
func (g *Gen) selectStmt(x *ssa.Select) {
	n := len(x.States)
	idx := g.declConst(g.fresh("select.idx"), "Int")
	lo := "0"
	if !x.Blocking {
		lo = "(- 1)"
	}
	g.assume(and(sx("<=", lo, idx), sx("<", idx, fmt.Sprint(n))))
	tup := []Val{{T: idx, S: "Int", G: types.Typ[types.Int]}, {}}
	var oks []string
	for i, st := range x.States {
		sel := sx("=", idx, fmt.Sprint(i))
		ch := g.val(st.Chan)
		if st.Dir != types.RecvOnly {
			// a send case: it may or may not be the one that proceeds (whether a
			// receiver or buffer room is there is not modelled); when it is, the value
			// is appended to the channel's log. It cannot proceed on a nil channel.
			g.assume(implies(sel, not(sx("=", ch.T, "0"))))
			v := g.val(st.Send)
			n := g.heap(g.st, "ChanN", "(Array Int Int)")
			vs := g.heap(g.st, "ChanV", "(Array Int (Array Int Int))")
			cnt := g.define("scnt", "Int", sx("select", n, ch.T))
			g.setHeap(g.st, "ChanV", "(Array Int (Array Int Int))", sx("ite", sel, sx("store", vs, ch.T, sx("store", sx("select", vs, ch.T), cnt, g.boxAny(v))), vs))
			g.setHeap(g.st, "ChanN", "(Array Int Int)", sx("store", n, ch.T, sx("ite", sel, sx("+", cnt, "1"), cnt)))
			continue
		}
		et := st.Chan.Type().Underlying().(*types.Chan).Elem()
		rh := g.heap(g.st, "ChanR", "(Array Int Int)")
		cur := g.define("rcur", "Int", sx("select", rh, ch.T))
		sent := sx("select", g.heap(g.st, "ChanN", "(Array Int Int)"), ch.T)
		avail := g.define("ravail", "Bool", and(not(sx("=", ch.T, "0")), sx("<", cur, sent)))
		closed := and(not(sx("=", ch.T, "0")), sx("select", g.heap(g.st, "Closed", "(Array Int Bool)"), ch.T))
		g.assume(implies(sel, or(avail, closed)))
		v := g.freshVal("recv", et)
		if es := g.sortOf(et); es != "" {
			boxed := sx("select", sx("select", g.heap(g.st, "ChanV", "(Array Int (Array Int Int))"), ch.T), cur)
			g.assume(implies(and(sel, avail), sx("=", v.T, g.unboxAny(boxed, es))))
			g.assume(implies(not(and(sel, avail)), sx("=", v.T, g.zero(et))))
		}
		g.assume(g.typeInv(v, g.st))
		taken := g.define("rtaken", "Bool", and(sel, avail))
		g.setHeap(g.st, "ChanR", "(Array Int Int)", sx("store", rh, ch.T, sx("ite", taken, sx("+", cur, "1"), cur)))
		oks = append(oks, taken)
		tup = append(tup, v)
	}
	okT := "false"
	if len(oks) > 0 {
		okT = or(oks...)
	}
	tup[1] = Val{T: okT, S: "Bool", G: types.Typ[types.Bool]}
	g.assumed = appendUniq(g.assumed, "select: the chosen case is arbitrary among the receive cases whose channel has a value left or is closed, the send cases, and the default, if any")
	g.vals[x] = Val{Tup: tup}
}

// pow2cFn: 2^n for 0 <= n < 64 as a case split (0 otherwise)
func (g *Gen) pow2cFn() string {
	if !g.declared["pow2c"] {
		g.declared["pow2c"] = true
		t := "0"
		for i := 63; i >= 0; i-- {
			t = fmt.Sprintf("(ite (= n %d) %s %s)", i, new(big.Int).Lsh(big.NewInt(1), uint(i)).String(), t)
		}
		g.emit("(define-fun pow2c ((n Int)) Int " + t + ")")
	}
	return "pow2c"
}

// goCaptureCheck: the join rule executes a goroutine at its spawn site, which is
// only faithful if the spawner does not overwrite a variable the goroutine
// captured by reference while the goroutine may still be running. A captured
// cell (an Alloc bound into the closure) that the spawning function stores to
// at a point reachable from the `go` statement (the next loop iteration, or a
// later statement) without first passing a join is reported as a failed
// obligation of kind "race". A join is a call of (*sync.WaitGroup).Wait or a
// channel receive / range over a channel.
func (g *Gen) goCaptureCheck(x *ssa.Go) {
	mc, ok := x.Call.Value.(*ssa.MakeClosure)
	if !ok {
		return
	}
	g.captureCheck(x, mc)
}

func (g *Gen) captureCheck(x ssa.Instruction, mc *ssa.MakeClosure) {
	fn, _ := mc.Fn.(*ssa.Function)
	isJoin := func(in ssa.Instruction) bool {
		switch y := in.(type) {
		case *ssa.UnOp:
			return y.Op == token.ARROW
		case *ssa.Select:
			return y.Blocking
		case ssa.CallInstruction:
			if _, isGo := in.(*ssa.Go); isGo {
				return false
			}
			if c := y.Common().StaticCallee(); c != nil && c.Name() == "Wait" && c.Pkg != nil && c.Pkg.Pkg.Path() == "sync" {
				return true
			}
		}
		return false
	}
	// instructions reachable from the go statement without passing a join or
	// the (re-)execution of the allocation of the captured cell (a variable
	// declared in the loop body is a new cell in every iteration)
	blk := x.Block()
	type pt struct {
		b    *ssa.BasicBlock
		from int
	}
	idx := 0
	for i, in := range blk.Instrs {
		if in == x {
			idx = i + 1
		}
	}
	reach := func(stop ssa.Instruction) []ssa.Instruction {
		seen := map[*ssa.BasicBlock]bool{}
		var after []ssa.Instruction
		work := []pt{{blk, idx}}
		first := true
		for len(work) > 0 {
			w := work[len(work)-1]
			work = work[:len(work)-1]
			if !first && seen[w.b] {
				continue
			}
			if !first {
				seen[w.b] = true
			}
			first = false
			stopped := false
			for _, in := range w.b.Instrs[w.from:] {
				if isJoin(in) || in == stop {
					stopped = true
					break
				}
				after = append(after, in)
			}
			if stopped {
				continue
			}
			for _, s := range w.b.Succs {
				work = append(work, pt{s, 0})
			}
		}
		return after
	}
	for bi, b := range mc.Bindings {
		al, ok := b.(*ssa.Alloc)
		if !ok {
			continue
		}
		name := al.Comment
		if fn != nil && bi < len(fn.FreeVars) {
			name = fn.FreeVars[bi].Name()
		}
		written := false
		for _, in := range reach(al) {
			if st, ok := in.(*ssa.Store); ok && st.Addr == ssa.Value(al) {
				written = true
			}
		}
		save := g.curPos
		g.curPos = x.Pos()
		cond := "true"
		if written {
			cond = "false"
		}
		nr := g.noRefine
		g.noRefine = true
		if written {
			g.check("race", "go-captured-"+name, cond, "variable "+name+" is captured by reference by a goroutine and written by the spawning function (next loop iteration or a later statement) before any join: the goroutine may read another iteration's value (unsynchronised concurrent access)")
		}
		g.noRefine = nr
		g.curPos = save
	}
}
