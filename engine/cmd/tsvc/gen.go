package main

import (
	"fmt"
	"go/token"
	"go/types"
	"regexp"
	"sort"
	"strings"

	"golang.org/x/tools/go/ssa"
)

// Val is a symbolic value: an SMT term with its sort and (when known) Go type.
type Val struct {
	T   string
	S   string
	G   types.Type
	Loc *Loc   // set when the value is an address that is not reified as a term
	Tup []Val  // tuple components (multi-result call, comma-ok)
	Clo *ssa.MakeClosure
}

const (
	LField = iota // field of a heap object: Heap[Base]
	LElem         // element of a backing array: Heap[Base][Idx]
	LCell         // cell: Heap[Base]
	LSub          // element Idx of an array value stored at Parent
	LPend         // element Idx of a pending literal array (not yet in the heap)
)

type Loc struct {
	Kind   int
	pend   *pendingArr
	Parent *Loc
	Heap   string
	Base   string
	Idx    string
	S    string     // sort of the pointee
	G    types.Type // Go type of the pointee
}

type State struct {
	heaps   map[string]string
	alloc   string
	pend    map[string]string // heaps havocked before they were first touched: name -> version tag
	pendAll string            // every untouched heap is at this version
}

func (s *State) clone() *State {
	n := &State{heaps: make(map[string]string, len(s.heaps)), alloc: s.alloc, pendAll: s.pendAll, pend: map[string]string{}}
	for k, v := range s.heaps {
		n.heaps[k] = v
	}
	for k, v := range s.pend {
		n.pend[k] = v
	}
	return n
}

type Obligation struct {
	Name   string
	Kind   string
	Prop   []string
	Form   string // formula that must be valid (given the script's assertions)
	Pos    token.Position
	Desc   string
	Status string
	Solver string
	Secs   float64
	Output string
	Tier   string
	// Splits: for every control-flow merge that dominates the obligation, the
	// reach conditions of its incoming edges. The solver may be asked to prove
	// the obligation once per combination of edges (a case split it does not
	// always find by itself).
	Splits [][]string
	Dead   []string // reachability cover: the points found unreachable
	Undecided int // reachability cover: points the solver did not decide in time
}

type deferred struct {
	cond string
	call *ssa.CallCommon
	pos  token.Pos
}

type Gen struct {
	P    *Program
	fn   *ssa.Function
	ct   *Contract
	key  string
	tier string

	lines    []string
	declared map[string]bool
	heapSort map[string]string
	vals     map[ssa.Value]Val
	obls     []*Obligation
	oblCount map[string]int
	n        int
	unsup    []string
	assumed  []string // names of trusted things used (library contracts etc.)
	callees  map[string]bool

	entry   *State
	cur     string
	st      *State
	defers  []deferred
	curPos  token.Pos
	curBlk  *ssa.BasicBlock
	siteHit map[*SiteAssert]bool
	ghostLets map[string]Val
	curIn   ssa.Instruction
	loopOf  map[*ssa.BasicBlock]int // loop head -> ordinal
	heads   []*ssa.BasicBlock
	siteOrd map[string]int

	noRefine    bool
	variant     int
	deadEdge   map[[2]int]bool // path variant: CFG edges (from, to block index) treated as not taken
	curSplits  [][]string
	blockSplits map[*ssa.BasicBlock][][]string
	pendArr    map[*ssa.Alloc]*pendingArr
	samples     []string // ghost: values of the random draws made so far (calls to `sampler` callees)
	frameTags  map[string]bool // loop-head version tags whose lazily declared heaps get the auto frame
	frameDone   map[string]bool
	fldK        map[string]int
	retReach    []string
	smokePts    []smokePt
	verAlloc    map[string]string // heap version constant -> allocation counter when it was introduced
	versions    map[string][]heapVersion
	heapKind    map[string]string
	tagAlloc    map[string]string
	ownModsDone bool
	ownModsV    []modLoc
}

type unsupportedErr struct{ msg string }

func (g *Gen) bail(format string, a ...interface{}) {
	panic(unsupportedErr{fmt.Sprintf(format, a...)})
}

func (g *Gen) fresh(prefix string) string {
	g.n++
	return fmt.Sprintf("%s!%d", prefix, g.n)
}

func (g *Gen) emit(s string) { g.lines = append(g.lines, s) }

func (g *Gen) declConst(name, sort string) string {
	qn := q(name)
	if !g.declared[qn] {
		g.declared[qn] = true
		g.emit(fmt.Sprintf("(declare-const %s %s)", qn, sort))
	}
	return qn
}

func (g *Gen) declFun(name string, args []string, res string) string {
	qn := q(name)
	if !g.declared[qn] {
		g.declared[qn] = true
		g.emit(fmt.Sprintf("(declare-fun %s (%s) %s)", qn, strings.Join(args, " "), res))
	}
	return qn
}

// define names a term (keeps the script a DAG).
func (g *Gen) define(prefix, sort, term string) string {
	if len(term) < 24 && !strings.ContainsAny(term, " ") {
		return term
	}
	n := q(g.fresh(prefix))
	if sort == "Bool" {
		g.emit(fmt.Sprintf("(define-fun %s () %s %s)", n, sort, term))
		return n
	}
	// values are named constants (not macros) so that terms stay syntactically
	// small and E-matching patterns over them keep working
	g.emit(fmt.Sprintf("(declare-const %s %s)", n, sort))
	g.emit(fmt.Sprintf("(assert (= %s %s))", n, term))
	return n
}

func (g *Gen) assume(f string) {
	if f == "true" {
		return
	}
	g.emit("(assert " + implies(g.cur, f) + ")")
}

func (g *Gen) assumeRaw(f string) {
	if f == "true" {
		return
	}
	g.emit("(assert " + f + ")")
}

// check adds an obligation at the current point and then assumes it.
func (g *Gen) check(kind, what, cond, desc string) {
	if cond == "true" {
		return
	}
	if g.ct != nil && g.ct.Skip[kind] {
		g.cur = g.define("r", "Bool", and(g.cur, cond))
		return
	}
	base := g.key + "/" + kind + "/" + what
	k := g.oblCount[base]
	g.oblCount[base] = k + 1
	ob := &Obligation{
		Name: fmt.Sprintf("%s#%d", base, k),
		Kind: kind,
		Form: implies(g.cur, cond),
		Pos:  g.P.fset.Position(g.curPos),
		Desc: desc,
		Splits: g.curSplits,
	}
	g.obls = append(g.obls, ob)
	if !g.noRefine {
		g.cur = g.define("r", "Bool", and(g.cur, cond))
	}
}

// ---------- sorts, type keys ----------

func pkgQual(p *types.Package) string { return p.Path() }

func typeKey(t types.Type) string {
	s := types.TypeString(t, pkgQual)
	s = strings.ReplaceAll(s, "github.com/bnb-chain/tss-lib/v2/", "")
	if strings.Contains(s, "byte") {
		s = byteRe.ReplaceAllString(s, "uint8")
	}
	if strings.Contains(s, "any") {
		s = anyRe.ReplaceAllString(s, "interface{}")
	}
	return s
}

var byteRe = regexp.MustCompile(`\bbyte\b`)
var anyRe = regexp.MustCompile(`\bany\b`)

func isBigIntPtr(t types.Type) bool {
	if p, ok := t.Underlying().(*types.Pointer); ok {
		if n, ok := p.Elem().(*types.Named); ok {
			o := n.Obj()
			return o.Pkg() != nil && o.Pkg().Path() == "math/big" && o.Name() == "Int"
		}
	}
	return false
}

func (g *Gen) sortOf(t types.Type) string {
	switch u := t.(type) {
	case *types.Named:
		if st, ok := u.Underlying().(*types.Struct); ok {
			return g.structSort(typeKey(u), st)
		}
		return g.sortOf(u.Underlying())
	case *types.Alias:
		return g.sortOf(types.Unalias(u))
	case *types.Basic:
		switch {
		case u.Info()&types.IsBoolean != 0:
			return "Bool"
		case u.Info()&types.IsFloat != 0, u.Info()&types.IsComplex != 0:
			return "Real"
		default:
			return "Int"
		}
	case *types.Pointer, *types.Map, *types.Chan, *types.Signature:
		return "Int"
	case *types.Slice:
		return "Slice"
	case *types.Interface:
		return "Iface"
	case *types.Array:
		return "(Array Int " + g.sortOf(u.Elem()) + ")"
	case *types.Struct:
		return g.structSort(typeKey(u), u)
	case *types.Tuple:
		return "Tuple"
	case *types.TypeParam:
		return "Int"
	}
	g.bail("no sort for type %s", t)
	return ""
}

// fieldAcc: accessor name of a struct field; blank fields ("_") are made unique
func fieldAcc(f *types.Var, i int) string {
	if f.Name() == "_" {
		return fmt.Sprintf("_%d", i)
	}
	return f.Name()
}

func (g *Gen) structSort(key string, st *types.Struct) string {
	name := q("S." + key)
	if g.declared[name] {
		return name
	}
	g.declared[name] = true
	var fs []string
	for i := 0; i < st.NumFields(); i++ {
		f := st.Field(i)
		fs = append(fs, fmt.Sprintf("(%s %s)", q("S."+key+"."+fieldAcc(f, i)), g.sortOf(f.Type())))
	}
	g.emit(fmt.Sprintf("(declare-datatypes ((%s 0)) (((%s %s))))", name, q("mk.S."+key), strings.Join(fs, " ")))
	return name
}

func (g *Gen) zero(t types.Type) string {
	return g.zeroOfSort(g.sortOf(t), t)
}

func (g *Gen) zeroOfSort(s string, t types.Type) string {
	switch {
	case s == "Int":
		return "0"
	case s == "Bool":
		return "false"
	case s == "Real":
		return "0.0"
	case s == "Slice":
		return "(mk-slice 0 0 0 0)"
	case s == "Iface":
		return "(mk-iface 0 0)"
	case strings.HasPrefix(s, "(Array"):
		var et types.Type
		if t != nil {
			if a, ok := t.Underlying().(*types.Array); ok {
				et = a.Elem()
			}
		}
		es := strings.TrimSuffix(strings.TrimPrefix(s, "(Array Int "), ")")
		return fmt.Sprintf("((as const %s) %s)", s, g.zeroOfSort(es, et))
	}
	if t != nil {
		if st, ok := t.Underlying().(*types.Struct); ok {
			key := typeKey(t)
			if st.NumFields() == 0 {
				return q("mk.S." + key)
			}
			var a []string
			for i := 0; i < st.NumFields(); i++ {
				a = append(a, g.zero(st.Field(i).Type()))
			}
			return sx(q("mk.S."+key), a...)
		}
	}
	g.bail("no zero value for sort %s", s)
	return ""
}

// ---------- heaps ----------

func (g *Gen) heap(st *State, name, sort string) string {
	if t, ok := st.heaps[name]; ok {
		return t
	}
	if _, ok := g.heapSort[name]; !ok {
		g.heapSort[name] = sort
	}
	tag := "0"
	if t, ok := st.pend[name]; ok {
		tag = t
	} else if st.pendAll != "" {
		tag = st.pendAll
	}
	c := g.declConst(name+"@"+tag, g.heapSort[name])
	if tag == "0" {
		g.setVerAlloc(name, c, g.entry.alloc)
	} else if a, ok := g.tagAlloc[tag]; ok {
		g.setVerAlloc(name, c, a)
	}
	if g.frameTags[tag] && !g.frameDone[c] {
		g.frameDone[c] = true
		st2 := &State{heaps: map[string]string{name: c}}
		save := g.cur
		g.cur = "true"
		g.autoFrame([]string{name}, st2)
		g.cur = save
	}
	return c
}

// refStride: distance between allocated references (room for sub-object references below each)
const refStride = 1 << 20

type heapVersion struct{ c, alloc string }

type smokePt struct{ name, reach string }

// setVerAlloc records that heap version constant c was introduced when the
// allocation counter was alloc, and states the allocation invariant of that
// version: every reference stored in it was allocated by then.
func (g *Gen) setVerAlloc(name, c, alloc string) {
	if _, done := g.verAlloc[c]; done {
		return
	}
	g.verAlloc[c] = alloc
	g.versions[name] = append(g.versions[name], heapVersion{c, alloc})
	if k, ok := g.heapKind[name]; ok {
		g.emitAllocInv(name, k, heapVersion{c, alloc})
	}
}

func (g *Gen) emitAllocInv(name, kind string, v heapVersion) {
	two := strings.HasPrefix(g.heapSort[name], "(Array Int (Array Int ")
	sel := "(select " + v.c + " r)"
	vars := "((r Int))"
	if two {
		sel = "(select (select " + v.c + " r) i)"
		vars = "((r Int) (i Int))"
	}
	// only objects that existed when the version was introduced are constrained:
	// a callee without a modifies clause may still initialise the fields of the
	// objects it allocates, and those live at indices above the counter
	switch kind {
	case "refarr":
		s2 := "(select (select " + v.c + " r) i)"
		g.emit(fmt.Sprintf("(assert (forall ((r Int) (i Int)) (! (=> (<= r %s) (and (<= 0 %s) (<= %s %s))) :pattern (%s))))", v.alloc, s2, s2, v.alloc, s2))
	case "ref":
		g.emit(fmt.Sprintf("(assert (forall %s (! (=> (<= r %s) (and (<= 0 %s) (<= %s %s))) :pattern (%s))))", vars, v.alloc, sel, sel, v.alloc, sel))
	case "slice":
		g.emit(fmt.Sprintf("(assert (forall %s (! (=> (<= r %s) (and (<= 0 (s-arr %s)) (<= (s-arr %s) %s))) :pattern (%s))))", vars, v.alloc, sel, sel, v.alloc, sel))
	}
}

// noteHeapKind learns from a typed location whether a heap holds references.
func (g *Gen) noteHeapKind(l *Loc) {
	if l.G == nil || l.Kind == LSub {
		return
	}
	if _, ok := g.heapKind[l.Heap]; ok {
		return
	}
	kind := ""
	switch l.G.Underlying().(type) {
	case *types.Pointer, *types.Map, *types.Chan, *types.Signature:
		kind = "ref"
	case *types.Slice:
		kind = "slice"
	case *types.Array:
		// array-valued field (e.g. ECPoint.coords [2]*big.Int)
		if a, ok := l.G.Underlying().(*types.Array); ok && l.Kind != LElem {
			switch a.Elem().Underlying().(type) {
			case *types.Pointer:
				kind = "refarr"
			}
		}
	}
	g.heapKind[l.Heap] = kind
	if kind != "" {
		for _, v := range g.versions[l.Heap] {
			g.emitAllocInv(l.Heap, kind, v)
		}
	}
}

func (g *Gen) setHeap(st *State, name, sort, term string) {
	if _, ok := g.heapSort[name]; !ok {
		g.heapSort[name] = sort
	}
	st.heaps[name] = g.define("h", g.heapSort[name], term)
}

func fieldHeapName(structKey, field string) string { return "F." + structKey + "." + field }
func elemHeapName(et types.Type) string            { return "El." + typeKey(et) }
func cellHeapName(t types.Type) string             { return "Cell." + typeKey(t) }

func (g *Gen) fieldLoc(structT types.Type, idx int, base string) (*Loc, Val) {
	st := structT.Underlying().(*types.Struct)
	f := st.Field(idx)
	key := typeKey(structT)
	if isAggregate(f.Type()) {
		// embedded-by-value struct or array: the sub-object's reference is the outer
		// reference minus a small constant that is unique per (type, field).
		// References are allocated refStride apart, so a sub-object is fresh
		// exactly when its container is, sub-objects of different containers
		// never coincide, and nested embeddings (sums of distinct powers of
		// two) stay apart. Two *entry* objects may still alias this way, which
		// Go allows (a pointer to an embedded field).
		fk := key + "." + f.Name()
		k, ok := g.fldK[fk]
		if !ok {
			if len(g.fldK) >= 19 {
				g.bail("too many kinds of embedded struct fields in one function")
			}
			k = 1 << uint(len(g.fldK))
			g.fldK[fk] = k
		}
		return nil, Val{T: sx("-", base, fmt.Sprint(k)), S: "Int", G: types.NewPointer(f.Type())}
	}
	s := g.sortOf(f.Type())
	return &Loc{Kind: LField, Heap: fieldHeapName(key, f.Name()), Base: base, S: s, G: f.Type()}, Val{}
}

func isAggregate(t types.Type) bool {
	switch t.Underlying().(type) {
	case *types.Struct, *types.Array:
		return true
	}
	return false
}

// wholeArrayLoc: the location holding all elements of an array object at ref
// (nil when t is not an array type).
func (g *Gen) wholeArrayLoc(t types.Type, ref string) *Loc {
	a, ok := t.Underlying().(*types.Array)
	if !ok {
		return nil
	}
	return &Loc{Kind: LCell, Heap: elemHeapName(a.Elem()), Base: ref, S: g.sortOf(t), G: t}
}

func (g *Gen) heapSortOfLoc(l *Loc) string {
	switch l.Kind {
	case LElem:
		return "(Array Int (Array Int " + l.S + "))"
	default:
		return "(Array Int " + l.S + ")"
	}
}

func (g *Gen) loadLoc(st *State, l *Loc) Val {
	if l.Kind == LPend {
		return Val{T: sx("select", l.pend.term, l.Idx), S: l.S, G: l.G}
	}
	if l.Kind == LSub {
		pv := g.loadLoc(st, l.Parent)
		return Val{T: sx("select", pv.T, l.Idx), S: l.S, G: l.G}
	}
	h := g.heap(st, l.Heap, g.heapSortOfLoc(l))
	g.noteHeapKind(l)
	var t string
	if l.Kind == LElem {
		t = sx("select", sx("select", h, l.Base), l.Idx)
	} else {
		t = sx("select", h, l.Base)
	}
	return Val{T: t, S: l.S, G: l.G}
}

func (g *Gen) storeLoc(st *State, l *Loc, v string) {
	if l.Kind == LPend {
		l.pend.term = sx("store", l.pend.term, l.Idx, v)
		return
	}
	if l.Kind == LSub {
		pv := g.loadLoc(st, l.Parent)
		g.storeLoc(st, l.Parent, sx("store", pv.T, l.Idx, v))
		return
	}
	hs := g.heapSortOfLoc(l)
	h := g.heap(st, l.Heap, hs)
	if l.Kind == LElem {
		g.setHeap(st, l.Heap, hs, sx("store", h, l.Base, sx("store", sx("select", h, l.Base), l.Idx, v)))
	} else {
		g.setHeap(st, l.Heap, hs, sx("store", h, l.Base, v))
	}
}

// locOfPointer turns a reified pointer value into a location according to its
// pointee type (cell, or error for structs/arrays which are handled by callers).
func (g *Gen) cellLoc(ptr Val, elem types.Type) *Loc {
	return &Loc{Kind: LCell, Heap: cellHeapName(elem), Base: ptr.T, S: g.sortOf(elem), G: elem}
}

// loadStruct builds the datatype value of the struct stored at ref.
func (g *Gen) loadStruct(st *State, t types.Type, ref string) string {
	s := t.Underlying().(*types.Struct)
	key := typeKey(t)
	if s.NumFields() == 0 {
		g.sortOf(t)
		return q("mk.S." + key)
	}
	var a []string
	for i := 0; i < s.NumFields(); i++ {
		loc, sub := g.fieldLoc(t, i, ref)
		if loc == nil {
			if al := g.wholeArrayLoc(s.Field(i).Type(), sub.T); al != nil {
				a = append(a, g.loadLoc(st, al).T)
			} else {
				a = append(a, g.loadStruct(st, s.Field(i).Type(), sub.T))
			}
		} else {
			a = append(a, g.loadLoc(st, loc).T)
		}
	}
	g.sortOf(t)
	return sx(q("mk.S."+key), a...)
}

func (g *Gen) storeStruct(st *State, t types.Type, ref string, val string) {
	s := t.Underlying().(*types.Struct)
	key := typeKey(t)
	g.sortOf(t)
	for i := 0; i < s.NumFields(); i++ {
		f := s.Field(i)
		fv := sx(q("S."+key+"."+fieldAcc(f, i)), val)
		loc, sub := g.fieldLoc(t, i, ref)
		if loc == nil {
			if al := g.wholeArrayLoc(f.Type(), sub.T); al != nil {
				g.storeLoc(st, al, fv)
			} else {
				g.storeStruct(st, f.Type(), sub.T, fv)
			}
		} else {
			g.storeLoc(st, loc, fv)
		}
	}
}

func (g *Gen) zeroStruct(st *State, t types.Type, ref string) {
	s := t.Underlying().(*types.Struct)
	for i := 0; i < s.NumFields(); i++ {
		f := s.Field(i)
		loc, sub := g.fieldLoc(t, i, ref)
		if loc == nil {
			if al := g.wholeArrayLoc(f.Type(), sub.T); al != nil {
				g.storeLoc(st, al, g.zero(f.Type()))
			} else {
				g.zeroStruct(st, f.Type(), sub.T)
			}
		} else {
			g.storeLoc(st, loc, g.zero(f.Type()))
		}
	}
}

// havocStruct gives every field of the object at ref a fresh value.
func (g *Gen) havocStruct(st *State, t types.Type, ref string) {
	s := t.Underlying().(*types.Struct)
	for i := 0; i < s.NumFields(); i++ {
		f := s.Field(i)
		loc, sub := g.fieldLoc(t, i, ref)
		if loc == nil {
			if al := g.wholeArrayLoc(f.Type(), sub.T); al != nil {
				g.havocLoc(st, al)
			} else {
				g.havocStruct(st, f.Type(), sub.T)
			}
		} else {
			g.havocLoc(st, loc)
		}
	}
}

func (g *Gen) havocLoc(st *State, l *Loc) {
	v := g.declConst(g.fresh("hv"), l.S)
	g.storeLoc(st, l, v)
	g.assume(g.typeInv(Val{T: v, S: l.S, G: l.G}, st))
}

// newRef allocates a fresh reference.
func (g *Gen) newRef(st *State) string {
	r := g.define("ref", "Int", sx("+", st.alloc, fmt.Sprint(refStride)))
	st.alloc = r
	return r
}

// typeInv returns the assumptions that hold for every value of a Go type.
func (g *Gen) typeInv(v Val, st *State) string {
	if v.G == nil {
		return "true"
	}
	switch u := v.G.Underlying().(type) {
	case *types.Basic:
		if u.Info()&types.IsInteger != 0 {
			lo, hi := intRange(u)
			return and(sx("<=", lo, v.T), sx("<=", v.T, hi))
		}
		if u.Kind() == types.String {
			return sx("<=", "0", v.T)
		}
	case *types.Pointer, *types.Map, *types.Chan, *types.Signature:
		// nil, or an allocated object (object references start at refStride)
		return and(sx("<=", "0", v.T), sx("<=", v.T, st.alloc), or(sx("=", v.T, "0"), sx("<=", fmt.Sprint(refStride), v.T)))
	case *types.Slice:
		a, o, l, c := sx("s-arr", v.T), sx("s-off", v.T), sx("s-len", v.T), sx("s-cap", v.T)
		return and(sx("<=", "0", a), sx("<=", a, st.alloc), sx("<=", "0", o), sx("<=", "0", l), sx("<=", l, c),
			sx("<=", c, "281474976710656"), sx("<=", o, "281474976710656"), implies(sx("=", a, "0"), sx("=", c, "0")))
	case *types.Interface:
		t, r := sx("i-typ", v.T), sx("i-val", v.T)
		return and(sx("<=", "0", t), implies(sx("=", t, "0"), sx("=", r, "0")))
	}
	return "true"
}

func intRange(u *types.Basic) (string, string) {
	switch u.Kind() {
	case types.Int8:
		return "(- 128)", "127"
	case types.Int16:
		return "(- 32768)", "32767"
	case types.Int32:
		return "(- 2147483648)", "2147483647"
	case types.Int, types.Int64, types.UntypedInt, types.UntypedRune:
		return "(- 9223372036854775808)", "9223372036854775807"
	case types.Uint8:
		return "0", "255"
	case types.Uint16:
		return "0", "65535"
	case types.Uint32:
		return "0", "4294967295"
	case types.Uint, types.Uint64, types.Uintptr:
		return "0", "18446744073709551615"
	}
	return "(- 9223372036854775808)", "9223372036854775807"
}

func intBits(u *types.Basic) (bits int, signed bool) {
	switch u.Kind() {
	case types.Int8:
		return 8, true
	case types.Int16:
		return 16, true
	case types.Int32:
		return 32, true
	case types.Int, types.Int64, types.UntypedInt, types.UntypedRune:
		return 64, true
	case types.Uint8:
		return 8, false
	case types.Uint16:
		return 16, false
	case types.Uint32:
		return 32, false
	case types.Uint, types.Uint64, types.Uintptr:
		return 64, false
	}
	return 64, true
}

func pow2(n int) string {
	switch n {
	case 8:
		return "256"
	case 16:
		return "65536"
	case 32:
		return "4294967296"
	case 64:
		return "18446744073709551616"
	}
	return "18446744073709551616"
}

// wrap reduces a mathematical integer to the machine range of type u.
// exact=true means the term is known to be within one modulus of the range
// (add/sub of in-range operands) so ite suffices; otherwise mod is used.
func wrap(t string, u *types.Basic, near bool) string {
	bits, signed := intBits(u)
	m := pow2(bits)
	lo, hi := intRange(u)
	if near {
		return fmt.Sprintf("(ite (> %s %s) (- %s %s) (ite (< %s %s) (+ %s %s) %s))", t, hi, t, m, t, lo, t, m, t)
	}
	if signed {
		half := sx("div", m, "2")
		return fmt.Sprintf("(- (mod (+ %s %s) %s) %s)", t, half, m, half)
	}
	return sx("mod", t, m)
}

// ---------- CFG helpers ----------

func rpo(fn *ssa.Function) []*ssa.BasicBlock {
	seen := map[*ssa.BasicBlock]bool{}
	var post []*ssa.BasicBlock
	var dfs func(b *ssa.BasicBlock)
	dfs = func(b *ssa.BasicBlock) {
		seen[b] = true
		for _, s := range b.Succs {
			if !seen[s] {
				dfs(s)
			}
		}
		post = append(post, b)
	}
	dfs(fn.Blocks[0])
	for i, j := 0, len(post)-1; i < j; i, j = i+1, j-1 {
		post[i], post[j] = post[j], post[i]
	}
	return post
}

func isBackEdge(p, h *ssa.BasicBlock) bool { return h.Dominates(p) }

// loopBlocks returns the natural loop of head h.
func loopBlocks(h *ssa.BasicBlock) map[*ssa.BasicBlock]bool {
	body := map[*ssa.BasicBlock]bool{h: true}
	var stack []*ssa.BasicBlock
	for _, p := range h.Preds {
		if isBackEdge(p, h) && !body[p] {
			body[p] = true
			stack = append(stack, p)
		}
	}
	for len(stack) > 0 {
		b := stack[len(stack)-1]
		stack = stack[:len(stack)-1]
		for _, p := range b.Preds {
			if !body[p] {
				body[p] = true
				stack = append(stack, p)
			}
		}
	}
	return body
}

func loopHeads(fn *ssa.Function) []*ssa.BasicBlock {
	var hs []*ssa.BasicBlock
	for _, b := range fn.Blocks {
		for _, p := range b.Preds {
			if isBackEdge(p, b) {
				hs = append(hs, b)
				break
			}
		}
	}
	sort.Slice(hs, func(i, j int) bool { return loopPos(hs[i]) < loopPos(hs[j]) })
	return hs
}

// loopPos orders loops by source position of their first positioned instruction.
func loopPos(h *ssa.BasicBlock) token.Pos {
	best := token.Pos(1 << 40)
	for b := range loopBlocks(h) {
		for _, in := range b.Instrs {
			if _, ok := in.(*ssa.DebugRef); ok {
				continue
			}
			if _, ok := in.(*ssa.Phi); ok {
				continue // a phi carries the position of the variable's declaration
			}
			if p := in.Pos(); p.IsValid() && p < best {
				best = p
			}
		}
	}
	return best
}
