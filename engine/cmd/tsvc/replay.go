package main

import (
	"encoding/json"
	"fmt"
	"go/types"
	"math/big"
	"os"
	"os/exec"
	"path/filepath"
	"strings"
	"time"

	"golang.org/x/tools/go/ssa"
)

// Replay of candidate counterexamples on the real code.
//
// For a failed obligation of a *safety* kind (nil dereference, index / slice
// bounds, failed type assertion, division by zero, violated library
// precondition, explicit panic) the solver is asked again for a model of the
// function's script (without the quantified axioms when the full script gives
// none) together with the values of the function's inputs at entry: every
// parameter and, through the entry heaps, what it points to (big.Int values,
// struct fields, slice elements; bounded depth and length). From these values a
// Go test is written that rebuilds the inputs, calls the real function and
// reports whether it panicked. The test is injected into the function's package
// with `go test -overlay` (nothing is written to /repo). Only a panic of the
// real code counts as confirmation; a model that does not replay leaves the
// obligation reported as `no-failing-input-found`.
//
// Inputs that cannot be rebuilt (function values, channels, maps, interfaces
// other than elliptic.Curve / io.Reader / context.Context, unexported types or
// fields of another package, closures) make the function not replayable; this is
// stated in the replay file.


const (
	replayMaxDepth = 4
	replayMaxElems = 40
	replayMaxPtrElems = 6
)

type rnode struct {
	t     types.Type
	kind  string // int bool string bigint ptr slice curve reader ctx zero array
	terms []int  // indices into rb.terms
	kids  []*rnode
	names []string // field names (ptr to struct)
	skip  []bool   // fields that cannot be set
}

type rbuild struct {
	g       *Gen
	pkg     *types.Package
	terms   []string
	notes   []string
	fail    string
	imports map[string]string
	// evaluation
	vals   []string
	stmts  []string
	nvar   int
	byRef  map[string]string
}

func (rb *rbuild) term(t string) int {
	rb.terms = append(rb.terms, t)
	return len(rb.terms) - 1
}

func (rb *rbuild) qual(p *types.Package) string {
	if p == rb.pkg {
		return ""
	}
	rb.imports[p.Path()] = p.Name()
	return p.Name()
}

func (rb *rbuild) typeStr(t types.Type) string {
	return types.TypeString(t, rb.qual)
}

func namedIs(t types.Type, path, name string) bool {
	if n, ok := t.(*types.Named); ok {
		o := n.Obj()
		return o.Pkg() != nil && o.Pkg().Path() == path && o.Name() == name
	}
	return false
}

// usable: can a test in rb.pkg name this type?
func (rb *rbuild) usable(t types.Type) bool {
	ok := true
	var walk func(t types.Type, d int)
	walk = func(t types.Type, d int) {
		if d > 6 {
			return
		}
		switch u := t.(type) {
		case *types.Named:
			o := u.Obj()
			if o.Pkg() != nil && o.Pkg() != rb.pkg && !o.Exported() {
				ok = false
			}
		case *types.Pointer:
			walk(u.Elem(), d+1)
		case *types.Slice:
			walk(u.Elem(), d+1)
		case *types.Array:
			walk(u.Elem(), d+1)
		}
	}
	walk(t, 0)
	return ok
}

func (rb *rbuild) build(v Val, t types.Type, depth int) *rnode {
	g := rb.g
	if !rb.usable(t) {
		rb.notes = append(rb.notes, "type "+t.String()+" cannot be named from the package: zero value used")
		return &rnode{t: t, kind: "zero"}
	}
	if isBigIntPtr(t) {
		bv := sx("select", g.heap(g.entry, "BV", "(Array Int Int)"), v.T)
		return &rnode{t: t, kind: "bigint", terms: []int{rb.term(v.T), rb.term(bv)}}
	}
	switch u := t.Underlying().(type) {
	case *types.Basic:
		switch {
		case u.Info()&types.IsBoolean != 0:
			return &rnode{t: t, kind: "bool", terms: []int{rb.term(v.T)}}
		case u.Info()&types.IsInteger != 0:
			return &rnode{t: t, kind: "int", terms: []int{rb.term(v.T)}}
		}
		rb.notes = append(rb.notes, "value of type "+t.String()+" is not rebuilt: zero value used")
		return &rnode{t: t, kind: "zero"}
	case *types.Interface:
		switch {
		case namedIs(t, "crypto/elliptic", "Curve"):
			return &rnode{t: t, kind: "curve", terms: []int{rb.term(sx("i-typ", v.T))}}
		case namedIs(t, "io", "Reader"):
			return &rnode{t: t, kind: "reader"}
		case namedIs(t, "context", "Context"):
			return &rnode{t: t, kind: "ctx"}
		}
		rb.fail = "interface-typed input " + t.String()
		return &rnode{t: t, kind: "zero"}
	case *types.Pointer:
		st, ok := u.Elem().Underlying().(*types.Struct)
		if !ok {
			rb.notes = append(rb.notes, "pointer to "+u.Elem().String()+" is not rebuilt: nil used")
			return &rnode{t: t, kind: "zero"}
		}
		n := &rnode{t: t, kind: "ptr", terms: []int{rb.term(v.T)}}
		if depth >= replayMaxDepth {
			n.kind = "ptrleaf"
			return n
		}
		for i := 0; i < st.NumFields(); i++ {
			f := st.Field(i)
			n.names = append(n.names, f.Name())
			settable := f.Exported() || f.Pkg() == rb.pkg
			if f.Name() == "_" || !settable || strings.HasPrefix(f.Type().String(), "google.golang.org/protobuf") || strings.Contains(f.Type().String(), "protoimpl") || strings.Contains(f.Type().String(), "sync.") {
				n.kids = append(n.kids, nil)
				continue
			}
			loc, sub := g.fieldLoc(u.Elem(), i, v.T)
			if loc == nil {
				// embedded struct / array value
				if a, ok := f.Type().Underlying().(*types.Array); ok {
					al := g.wholeArrayLoc(f.Type(), sub.T)
					av := g.loadLoc(g.entry, al)
					an := &rnode{t: f.Type(), kind: "array"}
					for k := int64(0); k < a.Len() && k < 8; k++ {
						ev := Val{T: sx("select", av.T, fmt.Sprint(k)), S: g.sortOf(a.Elem()), G: a.Elem()}
						an.kids = append(an.kids, rb.build(ev, a.Elem(), depth+1))
					}
					n.kids = append(n.kids, an)
				} else {
					// struct by value: same as a pointer to it, assigned by dereference
					pn := rb.build(Val{T: sub.T, S: "Int"}, types.NewPointer(f.Type()), depth+1)
					n.kids = append(n.kids, &rnode{t: f.Type(), kind: "structval", kids: []*rnode{pn}})
				}
				continue
			}
			fv := g.loadLoc(g.entry, loc)
			n.kids = append(n.kids, rb.build(fv, f.Type(), depth+1))
		}
		return n
	case *types.Slice:
		et := u.Elem()
		n := &rnode{t: t, kind: "slice", terms: []int{rb.term(sx("s-arr", v.T)), rb.term(sx("s-off", v.T)), rb.term(sx("s-len", v.T))}}
		max := replayMaxElems
		switch et.Underlying().(type) {
		case *types.Basic:
		case *types.Pointer, *types.Slice:
			if !isBigIntPtr(et) {
				max = replayMaxPtrElems
			}
			if depth >= replayMaxDepth {
				max = 0
			}
		default:
			rb.notes = append(rb.notes, "elements of "+t.String()+" are not rebuilt: zero values used")
			max = 0
		}
		es := g.sortOf(et)
		for k := 0; k < max; k++ {
			l := &Loc{Kind: LElem, Heap: elemHeapName(et), Base: sx("s-arr", v.T), Idx: sx("+", sx("s-off", v.T), fmt.Sprint(k)), S: es, G: et}
			ev := g.loadLoc(g.entry, l)
			n.kids = append(n.kids, rb.build(ev, et, depth+1))
		}
		return n
	}
	rb.fail = "input of type " + t.String()
	return &rnode{t: t, kind: "zero"}
}

func (rb *rbuild) newVar() string {
	rb.nvar++
	return fmt.Sprintf("v%d", rb.nvar)
}

func (rb *rbuild) intVal(i int) (*big.Int, bool) {
	s := strings.TrimSpace(rb.vals[i])
	neg := false
	if strings.HasPrefix(s, "(-") {
		neg = true
		s = strings.TrimSpace(strings.TrimSuffix(strings.TrimPrefix(s, "(-"), ")"))
	}
	v, ok := new(big.Int).SetString(s, 10)
	if !ok {
		return nil, false
	}
	if neg {
		v.Neg(v)
	}
	return v, true
}

// expr returns a Go expression for the node under the model (emitting
// statements for objects).
func (rb *rbuild) expr(n *rnode) string {
	if n == nil {
		return ""
	}
	ts := rb.typeStr(n.t)
	switch n.kind {
	case "zero":
		return "*new(" + ts + ")"
	case "bool":
		if strings.TrimSpace(rb.vals[n.terms[0]]) == "true" {
			return "true"
		}
		return "false"
	case "int":
		v, ok := rb.intVal(n.terms[0])
		if !ok {
			rb.fail = "model value not an integer: " + rb.vals[n.terms[0]]
			return "0"
		}
		b := n.t.Underlying().(*types.Basic)
		lo, hi := intRangeBig(b)
		if v.Cmp(lo) < 0 || v.Cmp(hi) > 0 {
			rb.fail = fmt.Sprintf("model value %s outside the range of %s", v, b.Name())
			return "0"
		}
		if v.Sign() < 0 {
			return fmt.Sprintf("%s(%s)", ts, v)
		}
		return fmt.Sprintf("%s(%s)", ts, v)
	case "bigint":
		r, ok := rb.intVal(n.terms[0])
		if !ok || r.Sign() == 0 {
			return "(*big.Int)(nil)"
		}
		key := "big:" + r.String()
		if x, ok := rb.byRef[key]; ok {
			return x
		}
		v, ok := rb.intVal(n.terms[1])
		if !ok {
			v = new(big.Int)
		}
		rb.imports["math/big"] = "big"
		x := rb.newVar()
		rb.stmts = append(rb.stmts, fmt.Sprintf("%s, _ := new(big.Int).SetString(%q, 10); _ = %s", x, v.String(), x))
		rb.byRef[key] = x
		return x
	case "curve":
		rb.imports["github.com/btcsuite/btcd/btcec/v2"] = "btcec"
		tag, _ := rb.intVal(n.terms[0])
		if tag != nil && tag.Sign() == 0 {
			return "(elliptic.Curve)(nil)"
		}
		if tag != nil {
			for k, tg := range rb.g.P.typeTags {
				if int64(tg) == tag.Int64() && strings.Contains(k, "edwards") {
					rb.imports["github.com/decred/dcrd/dcrec/edwards/v2"] = "edwards"
					return "edwards.Edwards()"
				}
			}
		}
		return "btcec.S256()"
	case "reader":
		rb.imports["crypto/rand"] = "crand"
		return "crand.Reader"
	case "ctx":
		rb.imports["context"] = "context"
		return "context.Background()"
	case "ptrleaf":
		r, ok := rb.intVal(n.terms[0])
		if !ok || r.Sign() == 0 {
			return "(" + ts + ")(nil)"
		}
		return "new(" + strings.TrimPrefix(ts, "*") + ")"
	case "ptr":
		r, ok := rb.intVal(n.terms[0])
		if !ok || r.Sign() <= 0 {
			return "(" + ts + ")(nil)"
		}
		key := typeKey(n.t) + ":" + r.String()
		if x, ok := rb.byRef[key]; ok {
			return x
		}
		x := rb.newVar()
		rb.byRef[key] = x
		et := n.t.Underlying().(*types.Pointer).Elem()
		rb.stmts = append(rb.stmts, fmt.Sprintf("%s := new(%s); _ = %s", x, rb.typeStr(et), x))
		for i, k := range n.kids {
			if k == nil {
				continue
			}
			switch k.kind {
			case "structval":
				px := rb.expr(k.kids[0])
				if !strings.HasSuffix(px, "(nil)") {
					rb.stmts = append(rb.stmts, fmt.Sprintf("%s.%s = *%s", x, n.names[i], px))
				}
			case "array":
				for j, e := range k.kids {
					rb.stmts = append(rb.stmts, fmt.Sprintf("%s.%s[%d] = %s", x, n.names[i], j, rb.expr(e)))
				}
			default:
				rb.stmts = append(rb.stmts, fmt.Sprintf("%s.%s = %s", x, n.names[i], rb.expr(k)))
			}
		}
		return x
	case "slice":
		arr, ok := rb.intVal(n.terms[0])
		if !ok || arr.Sign() <= 0 {
			return "(" + ts + ")(nil)"
		}
		ln, ok := rb.intVal(n.terms[2])
		if !ok || ln.Sign() < 0 || ln.Cmp(big.NewInt(1<<16)) > 0 {
			rb.fail = "model slice length " + rb.vals[n.terms[2]] + " is not replayable"
			return "nil"
		}
		x := rb.newVar()
		rb.stmts = append(rb.stmts, fmt.Sprintf("%s := make(%s, %d); _ = %s", x, ts, ln.Int64(), x))
		for j, e := range n.kids {
			if int64(j) >= ln.Int64() {
				break
			}
			rb.stmts = append(rb.stmts, fmt.Sprintf("%s[%d] = %s", x, j, rb.expr(e)))
		}
		return x
	}
	return "*new(" + ts + ")"
}

func intRangeBig(b *types.Basic) (*big.Int, *big.Int) {
	bits := map[types.BasicKind]int{types.Int8: 8, types.Int16: 16, types.Int32: 32, types.Int64: 64, types.Int: 64,
		types.Uint8: 8, types.Uint16: 16, types.Uint32: 32, types.Uint64: 64, types.Uint: 64, types.Uintptr: 64, types.UntypedInt: 64}[b.Kind()]
	if bits == 0 {
		bits = 64
	}
	one := big.NewInt(1)
	if b.Info()&types.IsUnsigned != 0 {
		return big.NewInt(0), new(big.Int).Sub(new(big.Int).Lsh(one, uint(bits)), one)
	}
	h := new(big.Int).Lsh(one, uint(bits-1))
	return new(big.Int).Neg(h), new(big.Int).Sub(h, one)
}

// splitSexprs: top-level elements of "( a b (c d) )"
func splitSexprs(s string) []string {
	s = strings.TrimSpace(s)
	if strings.HasPrefix(s, "(") && strings.HasSuffix(s, ")") {
		s = s[1 : len(s)-1]
	}
	var out []string
	depth, start, inBar := 0, -1, false
	for i := 0; i < len(s); i++ {
		c := s[i]
		if inBar {
			if c == '|' {
				inBar = false
				if depth == 0 {
					out = append(out, s[start:i+1])
					start = -1
				}
			}
			continue
		}
		switch {
		case c == '|':
			inBar = true
			if depth == 0 && start < 0 {
				start = i
			}
		case c == '(':
			if depth == 0 && start < 0 {
				start = i
			}
			depth++
		case c == ')':
			depth--
			if depth == 0 && start >= 0 {
				out = append(out, s[start:i+1])
				start = -1
			}
		case c == ' ' || c == '\n' || c == '\t' || c == '\r':
			if depth == 0 && start >= 0 {
				out = append(out, s[start:i])
				start = -1
			}
		default:
			if depth == 0 && start < 0 {
				start = i
			}
		}
	}
	if start >= 0 {
		out = append(out, s[start:])
	}
	return out
}

func (P *Program) tryReplay(r *FuncResult, ob *Obligation, b *strings.Builder) bool {
	if !safetyKinds[ob.Kind] && ob.Kind != "pre" {
		fmt.Fprintf(b, "replay: not attempted (obligation kind %q is not a run-time failure that a single call exhibits as a panic)\n", ob.Kind)
		return false
	}
	g := r.G
	if g == nil || os.Getenv("TSVC_NOREPLAY") != "" {
		return false
	}
	fn := g.fn
	if fn.Parent() != nil || fn.Pkg == nil {
		b.WriteString("replay: not attempted (closure)\n")
		return false
	}
	rb := &rbuild{g: g, pkg: fn.Pkg.Pkg, imports: map[string]string{}, byRef: map[string]string{}}
	ok := true
	func() {
		defer func() {
			if e := recover(); e != nil {
				ok = false
				fmt.Fprintf(b, "replay: not attempted (%v)\n", e)
			}
		}()
		var nodes []*rnode
		for _, p := range fn.Params {
			nodes = append(nodes, rb.build(g.vals[p], p.Type(), 0))
		}
		if rb.fail != "" {
			fmt.Fprintf(b, "replay: not attempted (%s cannot be rebuilt)\n", rb.fail)
			ok = false
			return
		}
		ok = P.runReplay(g, fn, rb, nodes, ob, b)
	}()
	return ok
}

func (P *Program) runReplay(g *Gen, fn *ssa.Function, rb *rbuild, nodes []*rnode, ob *Obligation, b *strings.Builder) bool {
	dir := filepath.Join(workDir, "replay-"+safeName(ob.Name))
	_ = os.MkdirAll(dir, 0o755)
	gv := "(get-value (" + strings.Join(rb.terms, " ") + "))\n"
	if len(rb.terms) == 0 {
		gv = ""
	}
	var out string
	for _, base := range []string{g.script(), liteScript(g)} {
		f := filepath.Join(dir, "model.smt2")
		_ = writeFile(f, base+"(assert (not "+ob.Form+"))\n(check-sat)\n"+gv)
		res := runSolver(solvers[0], f, 10)
		if res.Status == "sat" || (res.Status == "unknown" && strings.Contains(res.Output, "((")) {
			out = res.Output
			break
		}
	}
	if out == "" {
		b.WriteString("replay: not attempted (the solver gave no model of the inputs)\n")
		return false
	}
	if gv != "" {
		k := strings.Index(out, "((")
		if k < 0 {
			b.WriteString("replay: not attempted (no values in the solver output)\n")
			return false
		}
		pairs := splitSexprs(out[k:])
		if len(pairs) != len(rb.terms) {
			fmt.Fprintf(b, "replay: not attempted (%d values for %d terms)\n", len(pairs), len(rb.terms))
			return false
		}
		for _, p := range pairs {
			kv := splitSexprs(p)
			if len(kv) != 2 {
				b.WriteString("replay: not attempted (unparsable value)\n")
				return false
			}
			rb.vals = append(rb.vals, kv[1])
		}
	}
	var args []string
	for _, n := range nodes {
		args = append(args, rb.expr(n))
	}
	if rb.fail != "" {
		fmt.Fprintf(b, "replay: not attempted (%s)\n", rb.fail)
		return false
	}
	var call string
	sig := fn.Signature
	if sig.Recv() != nil {
		call = fmt.Sprintf("(%s).%s(%s", args[0], fn.Name(), strings.Join(args[1:], ", "))
	} else {
		call = fmt.Sprintf("%s(%s", fn.Name(), strings.Join(args, ", "))
	}
	if sig.Variadic() {
		call += "..."
	}
	call += ")"
	var src strings.Builder
	fmt.Fprintf(&src, "package %s\n\nimport (\n\t\"fmt\"\n\t\"testing\"\n", rb.pkg.Name())
	for path, name := range rb.imports {
		fmt.Fprintf(&src, "\t%s %q\n", name, path)
	}
	if strings.Contains(strings.Join(args, " ")+strings.Join(rb.stmts, " "), "elliptic.Curve") {
		if _, ok := rb.imports["crypto/elliptic"]; !ok {
			src.WriteString("\telliptic \"crypto/elliptic\"\n")
		}
	}
	src.WriteString(")\n\n// generated by tsvc from a solver model of a failed obligation:\n// " + ob.Name + "\n")
	src.WriteString("func TestTsvcReplay(t *testing.T) {\n\tdefer func() {\n\t\tif r := recover(); r != nil {\n\t\t\tfmt.Printf(\"TSVC-REPLAY: panic: %v\\n\", r)\n\t\t}\n\t}()\n")
	for _, s := range rb.stmts {
		src.WriteString("\t" + s + "\n")
	}
	src.WriteString("\t" + call + "\n\tfmt.Println(\"TSVC-REPLAY: returned\")\n}\n")
	tf := filepath.Join(dir, "zz_tsvc_replay_test.go")
	_ = writeFile(tf, src.String())
	pkgDir := filepath.Join(P.repoDir, trimPkg(rb.pkg.Path()))
	ov, _ := json.Marshal(map[string]interface{}{"Replace": map[string]string{filepath.Join(pkgDir, "zz_tsvc_replay_test.go"): tf}})
	of := filepath.Join(dir, "overlay.json")
	_ = writeFile(of, string(ov))
	cmd := exec.Command("go", "test", "-overlay", of, "-vet=off", "-count=1", "-v", "-timeout", "60s", "-run", "^TestTsvcReplay$", ".")
	cmd.Dir = pkgDir
	t0 := time.Now()
	o, _ := cmd.CombinedOutput()
	res := string(o)
	fmt.Fprintf(b, "replay: inputs rebuilt from the solver model and the real function called (go test -overlay, %.1fs)\n", time.Since(t0).Seconds())
	for _, n := range rb.notes {
		fmt.Fprintf(b, "replay note: %s\n", n)
	}
	fmt.Fprintf(b, "--- replay test ---\n%s\n--- replay output ---\n%s\n", src.String(), truncate(res, 4000))
	if strings.Contains(res, "TSVC-REPLAY: panic:") {
		b.WriteString("replay: the real code panics on this input (confirmed)\n")
		return true
	}
	if strings.Contains(res, "panic: test timed out") {
		b.WriteString("replay: the real code did not return within 60 s on this input (not counted as confirmation)\n")
		return false
	}
	b.WriteString("replay: the real code did not fail on this input (candidate model not confirmed)\n")
	return false
}
