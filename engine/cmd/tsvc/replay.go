package main

import (
	"strings"
)

// tryReplay turns a candidate counterexample into a Go test injected into the
// package with `go test -overlay` and runs it against the real code.
// Returns true when the real code misbehaves as predicted.
func (P *Program) tryReplay(r *FuncResult, ob *Obligation, b *strings.Builder) bool {
	return false
}
