package main

import (
	"regexp"
	"bufio"
	"encoding/json"
	"fmt"
	"os"
	"path/filepath"
	"sort"
	"strconv"
	"strings"
	"sync"
	"time"
)

var safetyKinds = map[string]bool{"nil": true, "idx": true, "slice": true, "tassert": true, "div0": true,
	"lib-pre": true, "panic": true, "pre": true, "nocontract": true}

// propsOf attributes an obligation to properties.
var labelRe = regexp.MustCompile(`(?:^|\.)(C[0-9][0-9](?:,C[0-9][0-9])*)\.`)

var ownContractKinds = map[string]bool{"post": true, "inv-init": true, "inv-keep": true}

func propsOf(ob *Obligation, fnProps []string) []string {
	// explicit label: ".../post/C11.range-s1#0", ".../pre/<callee>.C09.label#0",
	// ".../inv-keep/loop0.C08.x#1"; a comma list names several properties
	parts := strings.Split(ob.Name, "/")
	if len(parts) >= 2 {
		what := parts[len(parts)-1]
		if m := labelRe.FindStringSubmatch(what); m != nil {
			ps := strings.Split(m[1], ",")
			// A clause of the function's own contract carries every property the
			// function is listed under (callers of any of them rely on it), the
			// label's property first; C06 only counts safety obligations and
			// clauses labelled C06.
			if ownContractKinds[ob.Kind] {
				for _, p := range fnProps {
					dup := p == "C06"
					for _, q := range ps {
						if q == p {
							dup = true
						}
					}
					if !dup {
						ps = append(ps, p)
					}
				}
			}
			return ps
		}
	}
	if safetyKinds[ob.Kind] {
		for _, p := range fnProps {
			if p == "C06" {
				return []string{"C06"}
			}
		}
	}
	return fnProps
}

func isDigits(s string) bool {
	_, err := strconv.Atoi(s)
	return err == nil
}

type finding struct {
	kind  string // known | fixed
	prop  string
	obl   string
	text  string
	commt string
}

func loadFindings(path string) []finding {
	f, err := os.Open(path)
	if err != nil {
		return nil
	}
	defer f.Close()
	var out []finding
	sc := bufio.NewScanner(f)
	for sc.Scan() {
		ln := strings.TrimSpace(sc.Text())
		if ln == "" || strings.HasPrefix(ln, "#") {
			continue
		}
		fd := finding{}
		switch {
		case strings.HasPrefix(ln, "known:"):
			fd.kind = "known"
			ln = strings.TrimSpace(ln[6:])
		case strings.HasPrefix(ln, "fixed:"):
			fd.kind = "fixed"
			ln = strings.TrimSpace(ln[6:])
		default:
			continue
		}
		fs := strings.Fields(ln)
		var rest []string
		for _, w := range fs {
			switch {
			case strings.HasPrefix(w, "property="):
				fd.prop = w[9:]
			case strings.HasPrefix(w, "obligation="):
				fd.obl = w[11:]
			case strings.HasPrefix(w, "commit="):
				fd.commt = w[7:]
			default:
				rest = append(rest, w)
			}
		}
		fd.text = strings.Join(rest, " ")
		out = append(out, fd)
	}
	return out
}

type evidence struct {
	PropertyID  string                 `json:"property_id"`
	Tier        string                 `json:"tier"`
	Seed        int                    `json:"seed"`
	Level       string                 `json:"level"`
	Coverage    map[string]interface{} `json:"coverage"`
	Assumptions []string               `json:"assumptions"`
	WallS       float64                `json:"wall_s"`
	Violations  int                    `json:"violations"`
}

func (P *Program) checkProperty(prop, tier string, timeoutS int, loadSecs float64, t0 time.Time) int {
	seed := 0
	if s := os.Getenv("VERIF_SEED"); s != "" {
		seed, _ = strconv.Atoi(s)
	}
	var keys []string
	for k, c := range P.cs.ByKey {
		if c.NoBody {
			continue
		}
		for _, p := range c.Props {
			if p == prop {
				keys = append(keys, k)
				break
			}
		}
	}
	sort.Strings(keys)
	if len(keys) == 0 {
		fmt.Printf("no function under contract for property %s\n", prop)
		return 2
	}
	results := make([]*FuncResult, len(keys))
	var wg sync.WaitGroup
	sem := make(chan struct{}, 6)
	for i, k := range keys {
		wg.Add(1)
		go func(i int, k string) {
			defer wg.Done()
			sem <- struct{}{}
			defer func() { <-sem }()
			results[i] = P.verify(k, tier, timeoutS)
		}(i, k)
	}
	wg.Wait()

	known := loadFindings(filepath.Join(P.verifDir, "known_findings"))
	isKnown := func(name string) *finding {
		for i := range known {
			if known[i].kind == "known" && known[i].prop == prop && known[i].obl == name {
				return &known[i]
			}
		}
		return nil
	}
	replayDir := filepath.Join(P.verifDir, "replays", prop)
	_ = os.RemoveAll(replayDir)
	nObl, nDis, nViol, nKnown := 0, 0, 0, 0
	solverSecs := map[string]float64{}
	solverCount := map[string]int{}
	var samples []interface{}
	var funcs []interface{}
	assumeSet := map[string]bool{}
	var violLines []string
	exit := 0
	for _, r := range results {
		fe := map[string]interface{}{"function": r.Key, "secs": round2(r.Secs)}
		if r.Trusted {
			fe["status"] = "trusted (contract assumed, body not verified)"
			assumeSet["trusted contract (body not verified): "+r.Key] = true
			funcs = append(funcs, fe)
			continue
		}
		if r.Unsup != "" {
			// the proof does not go through: report, never pass silently
			nViol++
			exit = 1
			path := filepath.Join(replayDir, safeName(r.Key)+".txt")
			_ = writeFile(path, fmt.Sprintf("obligation: %s/subset\nfunction %s can no longer be brought under the verifier: %s\nno-failing-input-found\n", r.Key, r.Key, r.Unsup))
			violLines = append(violLines, fmt.Sprintf("VIOLATION property=%s replay=%s obligation=%s/subset %s no-failing-input-found", prop, path, r.Key, r.Unsup))
			fe["status"] = "outside subset: " + r.Unsup
			funcs = append(funcs, fe)
			continue
		}
		for _, a := range r.Assumed {
			assumeSet[a] = true
		}
		for _, a := range r.Abstract {
			assumeSet["abstraction in "+shortKey(r.Key)+": "+a] = true
		}
		fo, fd := 0, 0
		for _, ob := range r.Obls {
			if ob.Kind == "cover" {
				if ob.Status == "vacuous" {
					nViol++
					exit = 1
					path := filepath.Join(replayDir, safeName(ob.Name)+".txt")
					_ = writeFile(path, "obligation: "+ob.Name+"\nvacuity guard failed for "+r.Key+": "+ob.Desc+"\n"+ob.Output+"\nno-failing-input-found\n")
					violLines = append(violLines, fmt.Sprintf("VIOLATION property=%s replay=%s obligation=%s vacuous-precondition no-failing-input-found", prop, path, ob.Name))
				}
				continue
			}
			mine := false
			for _, p := range propsOf(ob, r.Props) {
				if p == prop {
					mine = true
				}
			}
			if !mine {
				continue
			}
			fo++
			nObl++
			sv := strings.Fields(ob.Solver)
			if len(sv) > 0 {
				solverSecs[sv[0]] += ob.Secs
				solverCount[sv[0]]++
			}
			if ob.Status == "unsat" {
				fd++
				nDis++
				if len(samples) < 6 && (ob.Kind == "post" || len(samples) < 3) {
					samples = append(samples, map[string]interface{}{"obligation": ob.Name, "kind": ob.Kind, "at": trimPkgPos(ob.Pos.String()), "what": ob.Desc, "solver": ob.Solver, "secs": round2(ob.Secs)})
				}
				continue
			}
			if kf := isKnown(ob.Name); kf != nil {
				// a recorded genuine defect: reported on every run, not counted among
				// the obligations this run claims to have discharged
				nKnown++
				nObl--
				fo--
				fmt.Printf("KNOWN-FINDING: property=%s %s %s\n", prop, ob.Name, kf.text)
				continue
			}
			nViol++
			exit = 1
			path := filepath.Join(replayDir, safeName(ob.Name)+".txt")
			tail := P.replay(r, ob, path)
			violLines = append(violLines, fmt.Sprintf("VIOLATION property=%s replay=%s obligation=%s status=%s at=%s %s", prop, path, ob.Name, ob.Status, trimPkgPos(ob.Pos.String()), tail))
		}
		fe["obligations"] = fo
		fe["discharged"] = fd
		if len(r.Abstract) > 0 {
			fe["abstracted"] = r.Abstract
		}
		funcs = append(funcs, fe)
	}
	for _, l := range violLines {
		fmt.Println(l)
	}
	var assumptions []string
	for a := range assumeSet {
		assumptions = append(assumptions, a)
	}
	sort.Strings(assumptions)
	assumptions = append([]string{
		"go/ssa (x/tools v0.29.0) faithfully represents the Go source; SMT solvers are sound",
		"integers: exact wrap-around semantics for + - * and conversions; slice lengths below 2^48",
		"memory safety of Go (no dangling references): every loaded reference is an allocated object",
		"prelude axioms (prelude/prelude.smt2) hold of the intended mathematical objects",
	}, assumptions...)
	solv := map[string]interface{}{}
	for s, n := range solverCount {
		solv[s] = map[string]interface{}{"obligations": n, "secs": round2(solverSecs[s])}
	}
	var trusted []string
	for _, f := range P.cs.Files {
		if !strings.HasPrefix(f, P.repoDir) {
			trusted = append(trusted, strings.TrimPrefix(f, P.verifDir+"/"))
		}
	}
	trusted = append(trusted, "z3 5.1.0 (z3-new), z3 4.8.12, cvc5 1.0", "golang.org/x/tools v0.29.0 go/ssa", "tsvc VC generator (/verif/engine)")
	ev := evidence{PropertyID: prop, Tier: tier, Seed: seed, Level: "proof", WallS: round2(time.Since(t0).Seconds()), Violations: nViol,
		Assumptions: assumptions,
		Coverage: map[string]interface{}{
			"obligations":      nObl,
			"discharged":       nDis,
			"known_findings":   nKnown,
			"checker_cmd":      fmt.Sprintf("bin/tsvc check -prop %s -tier %s", prop, tier),
			"trusted_base":     trusted,
			"functions":        funcs,
			"functions_count":  len(results),
			"solvers":          solv,
			"samples":          samples,
			"load_secs":        round2(loadSecs),
			"explanation":      "obligations = verification conditions generated from /repo's current SSA for the functions whose contract lists this property, not counting those recorded as known findings (known_findings lists each by name); discharged = proved unsat (negated) by an SMT solver",
		}}
	b, _ := json.MarshalIndent(ev, "", " ")
	if os.Getenv("VERIF_NO_EVIDENCE") == "" { // set only by tools/run_seeded.sh (runs on deliberately broken trees)
		_ = writeFile(filepath.Join(P.verifDir, "evidence", prop+".json"), string(b)+"\n")
	}
	fmt.Printf("property %s: %d functions, %d obligations, %d discharged, %d known findings, %d violations, %.1fs\n",
		prop, len(results), nObl, nDis, nKnown, nViol, time.Since(t0).Seconds())
	if nObl == 0 {
		fmt.Println("no obligations generated: refusing to report success")
		return 1
	}
	return exit
}

func round2(f float64) float64 { return float64(int(f*100+0.5)) / 100 }

func trimPkgPos(s string) string { return strings.TrimPrefix(s, "/repo/") }

// replay writes the replay file for a failed obligation and returns the tail
// of the VIOLATION line.
func (P *Program) replay(r *FuncResult, ob *Obligation, path string) string {
	var b strings.Builder
	fmt.Fprintf(&b, "obligation: %s\nkind: %s\nat: %s\nwhat: %s\nsolver status: %s (%s)\n", ob.Name, ob.Kind, ob.Pos, ob.Desc, ob.Status, ob.Solver)
	confirmed := false
	if ob.Status == "sat" || ob.Status == "sat-lite" {
		confirmed = P.tryReplay(r, ob, &b)
	}
	fmt.Fprintf(&b, "\n--- solver output ---\n%s\n", truncate(ob.Output, 20000))
	if !confirmed {
		b.WriteString("no-failing-input-found\n")
	}
	_ = writeFile(path, b.String())
	if confirmed {
		return "replayed-on-real-code"
	}
	return "no-failing-input-found"
}

func truncate(s string, n int) string {
	if len(s) > n {
		return s[:n] + "\n...[truncated]"
	}
	return s
}
