package main

// Contract files: comment-only Go files (tag verif) in /repo, library
// contract files and prelude macro files in /verif. Every contract line starts
// with "//@" (repo files) or is a plain line (".spec" files).

import (
	"fmt"
	"os"
	"strconv"
	"strings"
	"unicode"
)

// ---------- expression AST ----------

type Expr interface{}

type (
	EIdent  struct{ Name string }
	EInt    struct{ V string }
	EStr    struct{ V string }
	EBool   struct{ V bool }
	EUnary  struct{ Op string; X Expr }
	EBinary struct{ Op string; L, R Expr }
	ECall   struct{ Fn string; Args []Expr }
	ESel    struct{ X Expr; Name string }
	EIndex  struct{ X, I Expr }
	ESlice  struct{ X, Lo, Hi Expr }
	EQuant  struct {
		Forall bool
		Vars   []string
		Lo, Hi Expr // range for every var (nil = unbounded Int)
		Body   Expr
	}
	EIte struct{ C, A, B Expr }
)

func exprString(e Expr) string {
	switch x := e.(type) {
	case *EIdent:
		return x.Name
	case *EInt:
		return x.V
	case *EStr:
		return strconv.Quote(x.V)
	case *EBool:
		if x.V {
			return "true"
		}
		return "false"
	case *EUnary:
		return x.Op + exprString(x.X)
	case *EBinary:
		return "(" + exprString(x.L) + " " + x.Op + " " + exprString(x.R) + ")"
	case *ECall:
		var a []string
		for _, y := range x.Args {
			a = append(a, exprString(y))
		}
		return x.Fn + "(" + strings.Join(a, ", ") + ")"
	case *ESel:
		return exprString(x.X) + "." + x.Name
	case *EIndex:
		return exprString(x.X) + "[" + exprString(x.I) + "]"
	case *ESlice:
		lo, hi := "", ""
		if x.Lo != nil {
			lo = exprString(x.Lo)
		}
		if x.Hi != nil {
			hi = exprString(x.Hi)
		}
		return exprString(x.X) + "[" + lo + ":" + hi + "]"
	case *EQuant:
		q := "exists"
		if x.Forall {
			q = "forall"
		}
		r := ""
		if x.Lo != nil {
			r = " in " + exprString(x.Lo) + ".." + exprString(x.Hi)
		}
		return "(" + q + " " + strings.Join(x.Vars, ",") + r + " :: " + exprString(x.Body) + ")"
	case *EIte:
		return "ite(" + exprString(x.C) + ", " + exprString(x.A) + ", " + exprString(x.B) + ")"
	}
	return fmt.Sprintf("%v", e)
}

// ---------- lexer ----------

type tok struct {
	k string // "id" "int" "str" "op" "eof"
	s string
}

func lexExpr(src string) ([]tok, error) {
	var out []tok
	i := 0
	n := len(src)
	for i < n {
		c := src[i]
		switch {
		case c == ' ' || c == '\t' || c == '\n':
			i++
		case unicode.IsLetter(rune(c)) || c == '_' || c == '$':
			j := i + 1
			for j < n && (unicode.IsLetter(rune(src[j])) || unicode.IsDigit(rune(src[j])) || src[j] == '_' || src[j] == '$') {
				j++
			}
			out = append(out, tok{"id", src[i:j]})
			i = j
		case unicode.IsDigit(rune(c)):
			j := i + 1
			for j < n && (unicode.IsDigit(rune(src[j])) || src[j] == 'x' || (src[j] >= 'a' && src[j] <= 'f') || (src[j] >= 'A' && src[j] <= 'F')) {
				j++
			}
			out = append(out, tok{"int", src[i:j]})
			i = j
		case c == '"':
			j := i + 1
			for j < n && src[j] != '"' {
				if src[j] == '\\' {
					j++
				}
				j++
			}
			if j >= n {
				return nil, fmt.Errorf("unterminated string")
			}
			s, err := strconv.Unquote(src[i : j+1])
			if err != nil {
				return nil, err
			}
			out = append(out, tok{"str", s})
			i = j + 1
		default:
			ops := []string{"<==>", "==>", "::", "..", "==", "!=", "<=", ">=", "&&", "||", "<<", ">>"}
			matched := false
			for _, o := range ops {
				if strings.HasPrefix(src[i:], o) {
					out = append(out, tok{"op", o})
					i += len(o)
					matched = true
					break
				}
			}
			if !matched {
				if strings.ContainsRune("+-*/%<>!()[].,:^&|", rune(c)) {
					out = append(out, tok{"op", string(c)})
					i++
				} else {
					return nil, fmt.Errorf("unexpected character %q in %q", c, src)
				}
			}
		}
	}
	out = append(out, tok{"eof", ""})
	return out, nil
}

type eparser struct {
	t []tok
	p int
}

func (p *eparser) peek() tok { return p.t[p.p] }
func (p *eparser) next() tok { t := p.t[p.p]; p.p++; return t }
func (p *eparser) isOp(s string) bool {
	return p.t[p.p].k == "op" && p.t[p.p].s == s
}
func (p *eparser) expectOp(s string) {
	if !p.isOp(s) {
		panic(fmt.Errorf("expected %q, got %q", s, p.t[p.p].s))
	}
	p.p++
}

func parseExpr(src string) (e Expr, err error) {
	toks, err := lexExpr(src)
	if err != nil {
		return nil, err
	}
	p := &eparser{t: toks}
	defer func() {
		if r := recover(); r != nil {
			err = fmt.Errorf("parse error in %q: %v", src, r)
		}
	}()
	e = p.iff()
	if p.peek().k != "eof" {
		panic(fmt.Errorf("trailing tokens at %q", p.peek().s))
	}
	return e, nil
}

func (p *eparser) iff() Expr {
	l := p.impl()
	for p.isOp("<==>") {
		p.p++
		r := p.impl()
		l = &EBinary{"<==>", l, r}
	}
	return l
}
func (p *eparser) impl() Expr {
	l := p.or()
	if p.isOp("==>") {
		p.p++
		r := p.impl()
		return &EBinary{"==>", l, r}
	}
	return l
}
func (p *eparser) or() Expr {
	l := p.and()
	for p.isOp("||") {
		p.p++
		l = &EBinary{"||", l, p.and()}
	}
	return l
}
func (p *eparser) and() Expr {
	l := p.cmp()
	for p.isOp("&&") {
		p.p++
		l = &EBinary{"&&", l, p.cmp()}
	}
	return l
}
func (p *eparser) cmp() Expr {
	l := p.add()
	for _, o := range []string{"==", "!=", "<=", ">=", "<", ">"} {
		if p.isOp(o) {
			p.p++
			r := p.add()
			res := Expr(&EBinary{o, l, r})
			// chained comparison a <= b < c
			for _, o2 := range []string{"<=", "<", ">=", ">"} {
				if p.isOp(o2) {
					p.p++
					r2 := p.add()
					res = &EBinary{"&&", res, &EBinary{o2, r, r2}}
					break
				}
			}
			return res
		}
	}
	return l
}
func (p *eparser) add() Expr {
	l := p.mul()
	for p.isOp("+") || p.isOp("-") {
		o := p.next().s
		l = &EBinary{o, l, p.mul()}
	}
	return l
}
func (p *eparser) mul() Expr {
	l := p.unary()
	for p.isOp("*") || p.isOp("/") || p.isOp("%") {
		o := p.next().s
		l = &EBinary{o, l, p.unary()}
	}
	return l
}
func (p *eparser) unary() Expr {
	if p.isOp("!") || p.isOp("-") {
		o := p.next().s
		return &EUnary{o, p.unary()}
	}
	return p.postfix()
}
func (p *eparser) postfix() Expr {
	e := p.primary()
	for {
		switch {
		case p.isOp("."):
			p.p++
			t := p.next()
			if t.k != "id" {
				panic(fmt.Errorf("expected field name after '.'"))
			}
			// qualified call pkg.Fn(...)
			if id, ok := e.(*EIdent); ok && p.isOp("(") {
				p.p++
				args := p.args()
				e = &ECall{Fn: id.Name + "." + t.s, Args: args}
				continue
			}
			e = &ESel{e, t.s}
		case p.isOp("["):
			p.p++
			var lo, hi Expr
			if p.isOp(":") {
				p.p++
				if !p.isOp("]") {
					hi = p.iff()
				}
				p.expectOp("]")
				e = &ESlice{e, nil, hi}
				continue
			}
			if p.isOp("*") && p.t[p.p+1].k == "op" && p.t[p.p+1].s == "]" {
				p.p += 2
				e = &EIndex{e, &EIdent{"*"}}
				continue
			}
			lo = p.iff()
			if p.isOp(":") {
				p.p++
				if !p.isOp("]") {
					hi = p.iff()
				}
				p.expectOp("]")
				e = &ESlice{e, lo, hi}
				continue
			}
			p.expectOp("]")
			e = &EIndex{e, lo}
		default:
			return e
		}
	}
}
func (p *eparser) args() []Expr {
	var args []Expr
	if p.isOp(")") {
		p.p++
		return args
	}
	for {
		args = append(args, p.iff())
		if p.isOp(",") {
			p.p++
			continue
		}
		p.expectOp(")")
		return args
	}
}
func (p *eparser) primary() Expr {
	t := p.next()
	switch t.k {
	case "int":
		return &EInt{t.s}
	case "str":
		return &EStr{t.s}
	case "id":
		switch t.s {
		case "true":
			return &EBool{true}
		case "false":
			return &EBool{false}
		case "forall", "exists":
			q := &EQuant{Forall: t.s == "forall"}
			for {
				v := p.next()
				if v.k != "id" {
					panic(fmt.Errorf("quantifier variable expected"))
				}
				q.Vars = append(q.Vars, v.s)
				if p.isOp(",") {
					p.p++
					continue
				}
				break
			}
			if p.peek().k == "id" && p.peek().s == "in" {
				p.p++
				q.Lo = p.add()
				p.expectOp("..")
				q.Hi = p.add()
			}
			p.expectOp("::")
			q.Body = p.iff()
			return q
		}
		if p.isOp("(") {
			p.p++
			args := p.args()
			if t.s == "ite" && len(args) == 3 {
				return &EIte{args[0], args[1], args[2]}
			}
			return &ECall{Fn: t.s, Args: args}
		}
		return &EIdent{t.s}
	case "op":
		if t.s == "(" {
			e := p.iff()
			p.expectOp(")")
			return e
		}
		if t.s == "*" { // wildcard in modifies
			return &EIdent{"*"}
		}
	}
	panic(fmt.Errorf("unexpected token %q", t.s))
}

// ---------- contracts ----------

type Clause struct {
	Assumed bool
	Label string
	Src   string
	E     Expr
	Tier  string // "" = quick, "thorough" = only thorough tier
}

type LoopSpec struct {
	Inv      []*Clause
	Modifies []*Clause // optional extra write-set hints (unused: write-set is computed)
	Decr     Expr
}

type SiteAssert struct {
	Assume bool
	Let    string
	Callee string // short callee name, e.g. "mta.BobMid" or "(*Int).Exp"
	Ord    int
	C      *Clause
}

type Contract struct {
	Invokes  []string
	Key      string // canonical function key
	File     string
	Line     int
	Props    []string
	Requires []*Clause
	Ensures  []*Clause
	Modifies []*Clause
	ModAll   bool // modifies *
	Pure     bool // modifies nothing (no clause needed)
	Sampler  bool // result is a random draw, recorded as ghost sample(k) in the caller
	Trusted  bool // contract assumed, body not verified
	MayPanic bool // callers cannot rely on absence of panic
	NonBlockingSends bool // every plain channel send of the body must find room in the buffer
	AsyncInvokes     bool // the callbacks named by `invokes` run on other goroutines after the call returns
	DeadPoints int // number of blocks/returns that are legitimately unreachable
	NoBody   bool // library function: nothing to verify
	Loops    map[string]*LoopSpec
	Sites    []*SiteAssert
	Lets     []letDef
	Skip     map[string]bool // obligation kinds not claimed for this function (reported)
	Notes    []string
	Unfold   []Expr
}

type letDef struct {
	Name string
	E    Expr
}

type Macro struct {
	Name   string
	Params []string
	Body   Expr
}

type GlobalInv struct {
	Src string
	E   Expr
	Pkg string
}

type ContractSet struct {
	ByKey   map[string]*Contract
	Macros  map[string]*Macro
	Globals []*GlobalInv
	Files   []string
	Ghost   map[string]string // ghost heap name -> element sort
	SpecTypes map[string]string // spec function -> Go type of its result
}

func newContractSet() *ContractSet {
	return &ContractSet{ByKey: map[string]*Contract{}, Macros: map[string]*Macro{}, Ghost: map[string]string{}, SpecTypes: map[string]string{}}
}

var clauseKeywords = map[string]bool{
	"func": true, "props": true, "requires": true, "ensures": true, "modifies": true, "assume-ensures": true,
	"pure": true, "trusted": true, "maypanic": true, "nonblocking-sends": true, "async-invokes": true, "deadpoints": true, "sampler": true, "loop": true, "site": true, "let": true,
	"invokes": true, "define": true, "global": true, "ghost": true, "unfold": true, "spectype": true, "skip": true, "note": true, "package": true, "thorough": true,
}

// parseContractFile reads a contract file. pkgPrefix is prepended to function
// keys that are not already qualified ("" for library files whose keys are
// fully qualified).
func (cs *ContractSet) parseContractFile(path, pkgPath string, goFile bool) error {
	data, err := os.ReadFile(path)
	if err != nil {
		return err
	}
	cs.Files = append(cs.Files, path)
	type rawClause struct {
		line int
		text string
	}
	var raws []rawClause
	for i, ln := range strings.Split(string(data), "\n") {
		s := strings.TrimRight(ln, " \t\r")
		if goFile {
			t := strings.TrimSpace(s)
			if !strings.HasPrefix(t, "//@") {
				continue
			}
			s = strings.TrimPrefix(t, "//@")
		} else {
			if strings.HasPrefix(strings.TrimSpace(s), "#") {
				continue
			}
		}
		// strip trailing comment " // ..."
		if k := strings.Index(s, " // "); k >= 0 {
			s = s[:k]
		}
		t := strings.TrimSpace(s)
		if t == "" {
			continue
		}
		first := t
		if k := strings.IndexAny(t, " \t"); k >= 0 {
			first = t[:k]
		}
		if clauseKeywords[first] {
			raws = append(raws, rawClause{i + 1, t})
		} else if len(raws) > 0 {
			raws[len(raws)-1].text += " " + t
		} else {
			return fmt.Errorf("%s:%d: continuation without clause", path, i+1)
		}
	}
	var cur *Contract
	for _, rc := range raws {
		kw, rest := rc.text, ""
		if k := strings.IndexAny(rc.text, " \t"); k >= 0 {
			kw, rest = rc.text[:k], strings.TrimSpace(rc.text[k:])
		}
		fail := func(err error) error { return fmt.Errorf("%s:%d: %v", path, rc.line, err) }
		tier := ""
		if kw == "thorough" {
			tier = "thorough"
			kw, rest = rest, ""
			if k := strings.IndexAny(kw, " \t"); k >= 0 {
				kw, rest = kw[:k], strings.TrimSpace(kw[k:])
			}
		}
		mk := func(src string) (*Clause, error) {
			label := ""
			s := strings.TrimSpace(src)
			if strings.HasPrefix(s, "[") {
				if k := strings.Index(s, "]"); k > 0 && !strings.ContainsAny(s[1:k], " *:") {
					label = s[1:k]
					s = strings.TrimSpace(s[k+1:])
				}
			}
			e, err := parseExpr(s)
			if err != nil {
				return nil, err
			}
			return &Clause{Label: label, Src: s, E: e, Tier: tier}, nil
		}
		switch kw {
		case "package":
			pkgPath = rest
		case "func":
			key := strings.Fields(rest)[0]
			if pkgPath != "" && !strings.Contains(key, "/") && !strings.HasPrefix(key, "ext:") && !strings.HasPrefix(key, "dyn:") {
				key = qualifyKey(pkgPath, key)
			}
			key = strings.TrimPrefix(key, "ext:")
			if _, dup := cs.ByKey[key]; dup {
				return fail(fmt.Errorf("duplicate contract for %s", key))
			}
			cur = &Contract{Key: key, File: path, Line: rc.line, Loops: map[string]*LoopSpec{}, Skip: map[string]bool{}}
			cur.NoBody = !goFile
			cs.ByKey[key] = cur
		case "define":
			// define name(a, b) = expr
			k := strings.Index(rest, "=")
			for k >= 0 && (k+1 < len(rest) && rest[k+1] == '=' || (k > 0 && strings.ContainsRune("=!<>", rune(rest[k-1])))) {
				nk := strings.Index(rest[k+2:], "=")
				if nk < 0 {
					k = -1
					break
				}
				k = k + 2 + nk
			}
			if k < 0 {
				return fail(fmt.Errorf("define needs '='"))
			}
			head, body := strings.TrimSpace(rest[:k]), strings.TrimSpace(rest[k+1:])
			m := &Macro{}
			if p := strings.Index(head, "("); p >= 0 {
				m.Name = strings.TrimSpace(head[:p])
				for _, a := range strings.Split(strings.TrimSuffix(head[p+1:], ")"), ",") {
					if a = strings.TrimSpace(a); a != "" {
						m.Params = append(m.Params, a)
					}
				}
			} else {
				m.Name = head
			}
			e, err := parseExpr(body)
			if err != nil {
				return fail(err)
			}
			m.Body = e
			cs.Macros[m.Name] = m
		case "ghost":
			f := strings.SplitN(rest, " ", 2)
			if len(f) != 2 {
				return fail(fmt.Errorf("ghost <name> <sort>"))
			}
			cs.Ghost[f[0]] = strings.TrimSpace(f[1])
		case "spectype":
			// spectype <spec function> <Go type>: static Go type of the function's result
			f := strings.Fields(rest)
			if len(f) != 2 {
				return fail(fmt.Errorf("spectype <name> <go type>"))
			}
			cs.SpecTypes[f[0]] = f[1]
		case "global":
			e, err := parseExpr(rest)
			if err != nil {
				return fail(err)
			}
			cs.Globals = append(cs.Globals, &GlobalInv{Src: rest, E: e, Pkg: pkgPath})
		default:
			if cur == nil {
				return fail(fmt.Errorf("clause %q outside func", kw))
			}
			switch kw {
			case "props":
				cur.Props = append(cur.Props, strings.Fields(rest)...)
			case "requires":
				c, err := mk(rest)
				if err != nil {
					return fail(err)
				}
				cur.Requires = append(cur.Requires, c)
			case "ensures":
				c, err := mk(rest)
				if err != nil {
					return fail(err)
				}
				cur.Ensures = append(cur.Ensures, c)
			case "assume-ensures":
				// a postcondition callers may use but that is NOT verified against
				// the body: a named assumption (coin / hash non-degeneracy), listed
				// in every evidence file that depends on it
				c, err := mk(rest)
				if err != nil {
					return fail(err)
				}
				c.Assumed = true
				cur.Ensures = append(cur.Ensures, c)
			case "modifies":
				for _, part := range splitTop(rest, ',') {
					part = strings.TrimSpace(part)
					if part == "*" {
						cur.ModAll = true
						continue
					}
					if part == "nothing" {
						cur.Pure = true
						continue
					}
					c, err := mk(part)
					if err != nil {
						return fail(err)
					}
					cur.Modifies = append(cur.Modifies, c)
				}
			case "pure":
				cur.Pure = true
			case "sampler":
				// the first result is a fresh random draw: callers may name it sample(k)
				cur.Sampler = true
			case "trusted":
				cur.Trusted = true
				if rest != "" {
					cur.Notes = append(cur.Notes, "trusted: "+rest)
				}
			case "invokes":
				// invokes <param>: the function calls the function value passed as
				// <param> (any number of times >= 1 is modelled as exactly once, with
				// arbitrary arguments): its contract is applied at the call site
				cur.Invokes = append(cur.Invokes, strings.Fields(rest)...)
			case "maypanic":
				cur.MayPanic = true
			case "nonblocking-sends":
				// every plain send (outside a select) must find room in the channel's
				// buffer: sent - received < capacity is an obligation at the send
				cur.NonBlockingSends = true
			case "async-invokes":
				cur.AsyncInvokes = true
			case "deadpoints":
				n, err := strconv.Atoi(strings.Fields(rest)[0])
				if err != nil {
					return fail(err)
				}
				cur.DeadPoints = n
			case "skip":
				for _, f := range strings.Fields(rest) {
					cur.Skip[f] = true
				}
			case "note":
				cur.Notes = append(cur.Notes, rest)
			case "unfold":
				// unfold framei(init, R, o, n, B): at each call site the engine
				// states the first 16 unfoldings (ground instances of the prelude's
				// recursive definition) so that callers can reason about short lists
				e, err := parseExpr(rest)
				if err != nil {
					return fail(err)
				}
				cur.Unfold = append(cur.Unfold, e)
			case "let":
				k := strings.Index(rest, "=")
				if k < 0 {
					return fail(fmt.Errorf("let needs '='"))
				}
				e, err := parseExpr(strings.TrimSpace(rest[k+1:]))
				if err != nil {
					return fail(err)
				}
				cur.Lets = append(cur.Lets, letDef{strings.TrimSpace(rest[:k]), e})
			case "loop":
				// loop <id> invariant <expr> | loop <id> decreases <expr>
				f := strings.Fields(rest)
				if len(f) < 3 {
					return fail(fmt.Errorf("bad loop clause"))
				}
				id, what := f[0], f[1]
				body := strings.TrimSpace(strings.TrimPrefix(strings.TrimSpace(strings.TrimPrefix(rest, id)), what))
				ls := cur.Loops[id]
				if ls == nil {
					ls = &LoopSpec{}
					cur.Loops[id] = ls
				}
				switch what {
				case "invariant":
					c, err := mk(body)
					if err != nil {
						return fail(err)
					}
					ls.Inv = append(ls.Inv, c)
				case "decreases":
					e, err := parseExpr(body)
					if err != nil {
						return fail(err)
					}
					ls.Decr = e
				default:
					return fail(fmt.Errorf("bad loop clause kind %q", what))
				}
			case "site":
				// site <callee>#<k> : expr
				k := strings.Index(rest, " : ")
				if k < 0 {
					return fail(fmt.Errorf("site needs ' : '"))
				}
				head := strings.TrimSpace(rest[:k])
				assumeSite := false
				if strings.HasSuffix(head, " assume") {
					// site <callee>#<k> assume : expr -- a named, unchecked assumption at
					// this call (non-degeneracy of secret random values); listed in the evidence
					assumeSite = true
					head = strings.TrimSpace(strings.TrimSuffix(head, " assume"))
				}
				letName := ""
				if li := strings.Index(head, " let "); li >= 0 {
					// site <callee>#<k> let <name> : expr -- a ghost name for a value at this
					// call (usable as $<name> in postconditions; unconstrained if the call is not reached)
					letName = strings.TrimSpace(head[li+5:])
					head = strings.TrimSpace(head[:li])
				}
				ord := 0
				if h := strings.LastIndex(head, "#"); h >= 0 {
					ord, _ = strconv.Atoi(head[h+1:])
					head = head[:h]
				}
				c, err := mk(rest[k+3:])
				if err != nil {
					return fail(err)
				}
				cur.Sites = append(cur.Sites, &SiteAssert{Callee: head, Ord: ord, C: c, Assume: assumeSite, Let: letName})
			}
		}
	}
	return nil
}

func qualifyKey(pkgPath, key string) string {
	// "(*T).M" -> "(*pkg.T).M"; "(T).M" -> "(pkg.T).M"; "F" -> "pkg.F"
	if strings.HasPrefix(key, "(*") {
		return "(*" + pkgPath + "." + key[2:]
	}
	if strings.HasPrefix(key, "(") {
		return "(" + pkgPath + "." + key[1:]
	}
	return pkgPath + "." + key
}

func splitTop(s string, sep byte) []string {
	var out []string
	depth := 0
	start := 0
	for i := 0; i < len(s); i++ {
		switch s[i] {
		case '(', '[':
			depth++
		case ')', ']':
			depth--
		default:
			if s[i] == sep && depth == 0 {
				out = append(out, s[start:i])
				start = i + 1
			}
		}
	}
	out = append(out, s[start:])
	return out
}

// substitute replaces identifiers by expressions (macro expansion / let).
func substitute(e Expr, m map[string]Expr) Expr {
	switch x := e.(type) {
	case *EIdent:
		if r, ok := m[x.Name]; ok {
			return r
		}
		return x
	case *EUnary:
		return &EUnary{x.Op, substitute(x.X, m)}
	case *EBinary:
		return &EBinary{x.Op, substitute(x.L, m), substitute(x.R, m)}
	case *ECall:
		args := make([]Expr, len(x.Args))
		for i, a := range x.Args {
			args[i] = substitute(a, m)
		}
		return &ECall{x.Fn, args}
	case *ESel:
		return &ESel{substitute(x.X, m), x.Name}
	case *EIndex:
		return &EIndex{substitute(x.X, m), substitute(x.I, m)}
	case *ESlice:
		r := &ESlice{X: substitute(x.X, m)}
		if x.Lo != nil {
			r.Lo = substitute(x.Lo, m)
		}
		if x.Hi != nil {
			r.Hi = substitute(x.Hi, m)
		}
		return r
	case *EQuant:
		m2 := map[string]Expr{}
		for k, v := range m {
			m2[k] = v
		}
		for _, v := range x.Vars {
			delete(m2, v)
		}
		r := &EQuant{Forall: x.Forall, Vars: x.Vars, Body: substitute(x.Body, m2)}
		if x.Lo != nil {
			r.Lo = substitute(x.Lo, m)
			r.Hi = substitute(x.Hi, m)
		}
		return r
	case *EIte:
		return &EIte{substitute(x.C, m), substitute(x.A, m), substitute(x.B, m)}
	}
	return e
}
